#!/usr/bin/env python3
"""Regenerates /verif/MANIFEST.json from the table below (kept in one place so the claimed set,
the not_applicable list and the technique fields stay consistent)."""
import json
import os

VERIF = os.path.dirname(os.path.dirname(os.path.abspath(__file__)))

CLAIMED = {
    'C09': {
        'text': 'Static, exhaustive over the compiled program (all paths of all exported &mut DelaunayTriangulation '
                'operations, dev and release cfg): the spatial duplicate index is updated or dropped on every path '
                'that adds a vertex, is cleared after the Tds is re-keyed, the duplicate query dominates every '
                'insertion attempt, candidates are re-resolved before the distance test (a float comparison, not a bit-pattern or hash key), the coordinates filed in the index '
                'are read back from vertex storage, and slot-map insertion '
                'happens only behind the UUID vacancy check; a triangulation value handed a non-empty Tds (from_tds, rebuild candidates) starts without an index; the cell size of every insertion-time index depends on the duplicate tolerance. This is the cache-coherence and gating half of the '
                'property; the tolerance arithmetic is not decided.',
        'note': 'Trusted: rustc MIR and callee resolution; external slot-map/hash-map methods classified by name '
                '(hand-out vs mutating) in engine/rules/flow.py; one assumed-infeasible edge '
                '(get_vertex_by_key on the key just returned). Path-insensitive about data.',
        'technique': 'interprocedural effect-pairing dataflow + must-pass-through (dominance) checks over rustc MIR',
        'design': '§5 C09',
    },
    'C11': {
        'text': 'Static, exhaustive over all paths of the 27 exported &mut operations on Triangulation / '
                'DelaunayTriangulation and the exported ConvexHull queries (dev and release cfg): every path that '
                'adds/removes a cell or vertex or replaces the Tds bumps the generation counter; every hull query '
                'touches triangulation storage only behind the fresh edge of the creation-generation comparison; '
                'the counter is only ever incremented; the hull side of the freshness test reads only write-once hull state; after the vertex slots of a stored cell are swapped (which changes what a (cell, facet index) hull handle means) every success return is behind a generation bump. Decides the staleness clause, not the geometric hull clause.',
        'note': 'Trusted: rustc MIR; a whole-Tds replacement counts as bumped only when the replacement called '
                'Tds::inherit_generation_from(live) (exception table empty since fix F12); Clone for Tds must share the '
                'counter. Of the in-place cell edits that do not change the key set only vertex-slot swaps are covered (SLOTBUMP).',
        'technique': 'interprocedural effect-pairing dataflow + must-pass-through (dominance) checks over rustc MIR',
        'design': '§5 C11',
    },
}

CLAIMED['C13'] = {
    'text': 'Static: field coverage of the Serialize/Deserialize impls of Tds, Cell, Vertex and Point against their ADT '
            'field lists (a field that is neither written nor in the reasoned skip table is reported by name), writer '
            'names = reader names, no persisted field of a parsed element is overwritten with a value not derived from the '
            'input before it is stored, the coordinate writer replaces a value by a sentinel only on a non-finite edge, and must-pass-through: every Ok exit of the Tds deserialiser lies behind the '
            'success edges of the neighbour / incident-cell rebuild and of a call covering all Level-2 and Level-1 '
            'validators; a fixed-arity sequence reader refuses input that ends early; the Vertex reader refuses every non-finite coordinate. the refusals a reader decides itself stay within a reviewed table; hand-written map visitors read their keys as owned values (so non-borrowing deserialisers work). Decides the "nothing silently dropped" and "inconsistent input is rejected" clauses, not '
            'round-trip equality.',
    'note': 'Trusted: rustc MIR; serde derive/expansion emits serialize_field calls with literal names; slotmap '
            'serde for key gaps. Skip table with reasons in engine/rules/c13.py.',
    'technique': 'field-coverage cross-check + must-pass-through (dominance) over rustc MIR',
    'design': '§5 C13',
}

CLAIMED['C16'] = {
    'text': 'Static: every f64::rem_euclid result is re-clamped against the modulus before use (half-open box, '
            'idempotence); every exported insertion-by-location on DelaunayTriangulation passes coordinate '
            'canonicalisation before the vertex can reach storage; the toroidal builder arms canonicalise, construct '
            'from the canonicalised vertices and record the topology before Ok; no exported operation other than '
            'set_global_topology changes the recorded topology on any path (whole-receiver replacements must copy it); a vertex re-created at perturbed coordinates is wrapped again; every builder arm passes the configured options and guarantee to its constructor, and the arm that builds from canonicalised vertices must hand over the topology as well (violated today: known finding F21); in the periodic image-point mode the boundary-count and Euler-characteristic acceptance tests each refuse on their own. Decides the wrapping-mode clauses '
            'structurally; the periodic image-point mode is not decided.',
    'note': 'Trusted: rustc MIR; the canonicalisation leaf is GlobalTopologyModel::canonicalize_point_in_place (any '
            'impl); congruence modulo the period is arithmetic and not decided.',
    'technique': 'post-guard value-flow + must-pass-through (dominance) over rustc MIR',
    'design': '§5 C16',
}

CLAIMED['C19'] = {
    'text': 'Static classification of every natural loop (~920) in the crate as terminating (finite iterator / counter / '
            'serde input / collector / drained, visited-guarded or budgeted work list; 4 table entries with the termination '
            'argument), of the 5 recursive call-graph cycles with their bound idioms re-checked, of the explicit panic '
            'sites per function against a classified table, a ban on keyed slot-map indexing, and a call-graph fixed '
            'point showing that a caller-supplied vertex passes a finiteness validation before it can reach storage '
            '(constructors and k=1 flips are reasoned table entries); helpers that assert hull freshness are called only '
            'behind the typed staleness check; checked integer arithmetic (overflow / division asserts on non-usize integers, '
            'usize subtraction) per function matches a classified table; slice indices that are caller-handle values are '
            'range-checked first; range indexing is guarded by a length test on the same collection (or bounded by an iterator position); every non-literal slice / array index is bounded by an order comparison, an iterator position, len / min / clamp / remainder, or sits in a reasoned table; the point generators never size an infallible allocation with the caller-supplied count; range samplers are reached only behind a finiteness test of the range width. Decides "no unbounded loop / recursion, no new '
            'panic site, non-finite input gated"; not complexity, stack depth or arithmetic asserts.',
    'note': 'Trusted: rustc MIR; finiteness of std/slotmap/smallvec iterators; the LOOP / PANIC / FINITE tables in '
            'engine/rules/c19.py (each entry with a reason). Idiom classifiers: an unrecognised but correct new loop or '
            'expect() is reported as unclassified and needs a table line.',
    'technique': 'loop / recursion / panic-site classification and call-graph fixed point over rustc MIR',
    'design': '§5 C19',
}

CLAIMED['C03'] = {
    'text': 'Static, exhaustive over all paths of the 27 exported &mut operations and the 6 transactional-layer functions '
            '(dev and release cfg): no failing exit (Err, or Ok carrying InsertionOutcome::Skipped) is reached with Tds '
            'storage mutated and not restored from a snapshot taken while it was clean (a Skipped outcome passed up through match arms / re-wrapping is followed). Interprocedural, path-sensitive '
            'dataflow with result-edge correlation, snapshot recognition through closures / Options / tuples, and '
            'owner contracts; the same dataflow on the non-storage state (policies, insertion counter, duplicate index, '
            'topology settings) with copy-snapshots; the condition under which a conditional snapshot is taken must slice to '
            'the inputs of the condition under which the failing step runs. Every internal error return is covered at '
            'once — the quantifier the suite cannot reach.',
    'note': 'Trusted: rustc MIR; derive(Clone) of Tds; field-sensitive MOD summaries with external hand-out / mutating '
            'method classification; 1 restore-by-inverse table entry, 4 cut infeasible edges (value correlations, listed in '
            'the evidence), 4 assumed-infeasible exits of the flip kernel (no witness); 2 further kernel exits are known '
            'finding F2; 2 benign cache callees and the locate hint are declared caches.',
    'technique': 'interprocedural rollback (snapshot/restore) dataflow over rustc MIR',
    'design': '§4.2, §5 C03',
}
CLAIMED['C08'] = {
    'text': 'Static: in all 5 repair step functions a successful flip reaches the enqueueing of new cells only through the '
            'counter increment and the within-budget edge (the other edge fails); no exported function reaches a repair '
            'driver without is_admissible_under having answered true (least fixed point over the call graph, including '
            'the InvalidTopology variant gate); every Ok of the public repair entry points lies behind the success edge of '
            'the post-condition verifier (greatest fixed point); the Delaunay verifiers drop no checker result; the flip '
            'drivers cannot write the vertex maps and the heuristic rebuild re-inserts every stored vertex and fails on a '
            'skipped one, its first attempt unperturbed; the work-list seeding shared by repair and verifier covers every simplex class per cell; no exported '
            'operation returns success after a flip driver succeeded without the cell orientation having been re-validated; a Some(seed set) handed to the repair is non-empty by construction; in the k=2 local-Delaunay predicate shared by the repair loop and its post-condition a positive in-sphere sign yields the verdict violation for every valuation of the dimension / configuration conditions (finite boolean walk of the MIR tail; violated today: known finding F24, D >= 4). '
            'Decides budget / admissibility / post-condition gating, not convergence or uniqueness.',
    'note': 'Trusted: rustc MIR; the four flip-predicate post-condition checkers and validate_cell_delaunay are leaves '
            '(their numerical verdict is C04, not applicable), except that the masking of a positive sign in the k=2 predicate is '
            'decided (UNMASKED). Known finding F24 is listed in known_findings.txt with its run-time witnesses; the check '
            'prints KNOWN-FINDING for it and exits 0.',
    'technique': 'must-pass-through (dominance) + call-graph fixed points over rustc MIR',
    'design': '§5 C08',
}

CLAIMED['C05'] = {
    'text': 'Static: the validator stack checked as a dominance / error-propagation structure: each cumulative validator '
            'passes (success edge) every leaf checker of its level and the lower cumulative validator before Ok; the '
            'guarantee-dependent link checkers are passed on the true edge of their predicates; no validator drops or '
            'swallows a checker result; each diagnostic report reaches the leaves its validator reaches; each Level 1-2 leaf (transitively) reads the data its invariant is about. '
            'Cell::is_valid refuses every vertex count other than D + 1 by an (in)equality test; the geometric-orientation leaf refuses a zero orientation per cell. '
            'Decides "cumulative = conjunction of levels" and "nothing is skipped or swallowed"; not that each '
            'leaf detects its fault class.',
    'note': 'Trusted: rustc MIR; the Level 1-3 leaf tables in engine/rules/tables.py; a checker returning a verdict '
            'record (Euler) is only required to be called. The single-fault injection of the property is not simulated.',
    'technique': 'must-pass-through (dominance) + result-flow (no-drop) checks over rustc MIR',
    'design': '§5 C05',
}

CLAIMED['C01'] = {
    'text': 'Static, per build profile: every exported batch constructor of DelaunayTriangulation / the builder returns Ok '
            'only behind the success edge of a sound Delaunay verifier (greatest fixed point over all bodies returning '
            'Result<DelaunayTriangulation..>, closures and the retry / fallback wrappers included), and the PL-manifold '
            'completion check is passed on the true edge of requires_vertex_links_at_completion; certifiers are verifiers that '
            'cannot answer Ok without a check having run; no constructor returns Ok after a flip repair without the cell '
            'orientation having been re-validated; sibling constructors (plain / statistics) reach the same verifiers; the '
            'first construction attempt uses the caller\'s vertices unperturbed; per-insertion statistics record the outcome that is reported; a stale cell hint reaches the same fallback scan as no hint; the statistics returned with a triangulation come from the construction call that produced it; because the shuffled-retry path re-checks candidates with the brute-force verifier, the bodies that build a triangulation themselves must return Ok only behind it (contradiction rule; violated today: known finding F25, the RetryPolicy::Disabled / release path); the k=2 local-Delaunay predicate behind the verifier does not mask a positive in-sphere sign (violated today: known finding F24, D >= 4). The debug and the '
            'release fact bases are analysed separately because RetryPolicy and validation paths differ — the suite '
            'never runs the release paths. Decides "Ok is certified", not that the certifier is numerically right.',
    'note': 'Trusted: rustc MIR; the L4 leaf table; Pseudomanifold has no Level-3 completion gate by design (noted in '
            'evidence). Of the vertex-set clause only element conservation in the de-duplication family and UUID/data of '
            're-created vertices are decided; of the statistics only that each (outcome, statistics) pair agrees. Known findings F24 '
            '(4-D constructors return Ok with cells violating the empty-circumsphere property) is listed in known_findings.txt '
            'with its run-time witness, as is F25 (3-D lattice input, Ok with 4 non-Delaunay cells under RetryPolicy::Disabled); the check prints KNOWN-FINDING for them and exits 0.',
    'technique': 'greatest-fixed-point certification (dominance on success edges) over rustc MIR',
    'design': '§5 C01',
}
CLAIMED['C02'] = {
    'text': 'Static: the insertion safety net as must-pass-through instances: commit only behind validate_after_insertion '
            '(bootstrap excepted), link and orientation checkers on the true edge of the guarantee predicates, '
            'orientation normalisation / check and local ridge links after a per-insertion repair, Inserted only behind '
            'maybe_check_after_insertion which validates when the policy fires; the insertion owners are clean on failure (C03 '
            'rollback dataflow), re-created vertices keep UUID and data; the plain and the statistics-reporting insertion entry '
            'points reach the same validators; no insertion function returns success after the cavity fill / hull extension '
            'without the orientation normalisation and check, and the promotion pass refuses a flat (zero-orientation) cell per cell; the key reported after the post-insertion repair is the one that repair handed back; a rebuilt candidate that replaces the receiver carries the configured check / repair policies and the insertion counter. Path-sensitive for literal bool flags. '
            'Decides that no committing path skips the net; not that the validators suffice.',
    'note': 'Trusted: rustc MIR; edges taken when number_of_cells() == 0 and is_empty() on the checked collection are '
            'cut as legitimate bypasses; Pseudomanifold + ValidationPolicy::Never has no gate by design.',
    'technique': 'must-pass-through (dominance) with bool constant propagation over rustc MIR',
    'design': '§5 C02',
}

CLAIMED['C06'] = {
    'text': 'Static: both remove_vertex layers and the inverse k=1 flip are clean on failure (the C03 rollback dataflow '
            'restricted to these owners); for an unknown vertex no storage mutation is reachable and the only exits are '
            'Ok(0); the fan retriangulation reports success only behind the local facet, orientation and incidence checks; '
            'when the repair policy fires, Ok lies behind the success edge of the verified flip repair, and that decision does '
            'not read the insertion counter; the fan retriangulation must report success only behind a Level-3 validation of '
            'its result (violated today: known finding F13, hull vertices); the fan apex is selected with the facet (opposite-vertex) index or an (in)equality test, so it cannot be the removed vertex; the fan fill closes every boundary facet that does not contain the apex; the raw Tds removal (deletes the star, fills nothing) is reached only behind the fan fill or behind an emptiness decision on the star computed from the cells stored in the Tds; the flip kernel behind the fast path (inverse k=1) reports success only behind neighbour wiring, removal of the old cells and the orientation normalisation. Decides rollback, the no-op clause and the gating '
            'of removal; not whether a valid fan exists.',
    'note': 'Trusted: as for C03. Known finding F13 is listed in known_findings.txt with its run-time witnesses; the check '
            'prints KNOWN-FINDING for it and exits 0.',
    'technique': 'rollback dataflow + must-pass-through (dominance) over rustc MIR',
    'design': '§5 C06',
}
CLAIMED['C07'] = {
    'text': 'Static: in the flip kernel every legality guard (duplicate cell, non-manifold facet, existing simplex, '
            'degenerate cell, the five arity / disjointness rejections) lies before the first cell insertion on every path '
            '(per-cell guard loops checked per iteration); flip contexts are constructed only by the six validated '
            'builders; the 12 Edit-API methods and the kernel layers are clean on failure (C03 engine); every simplex hash '
            'used by the guards is computed over the same canonical (u64-sorted) key sequence at the index builder and at '
            'every lookup; the kernel reports success only behind neighbour wiring, removal of the old cells and the '
            'coherent-orientation normalisation, for every k; each context builder refuses dimensions below the size of its move; a negatively oriented new cell is reordered before insertion; the run-time move size handed to the dynamic flip entry is computed from the const dimension alone and the Edit API and the repair loop agree on it per context builder; the k=1 cell split clears the incident-cell pointer of the caller\'s copy and gives the stored vertex one of the new cells; the result of the kernel reports the faces and cells it was given. Decides "no mutation before the guards, no unvalidated context, no trace on failure, guards and '
            'index agree on keys, the structural post-steps are never skipped"; not manifold preservation, counts or invertibility.',
    'note': 'Trusted: as for C03; 4 assumed-infeasible exits in the kernel and known finding F2 (2 exits) are shared with C03.',
    'technique': 'must-pass-through (dominance), construction-site enumeration and rollback dataflow over rustc MIR',
    'design': '§5 C07',
}
CLAIMED['C14'] = {
    'text': 'Static: over the call graph rooted at the constructors and exported &mut operations: no unseeded random '
            'source, no thread / process identity, no thread-local other than the recursion-depth counter, no iteration '
            'over a RandomState-hashed collection; every seed_from_u64 seed has no nondeterministic source in its backward '
            'slice; every clock value flows only into elapsed-time logging; the comparators of the three value-based ordering '
            'strategies compare the input position only after the full coordinate comparison; simplex positions are computed on the '
            'sequence they are applied to; hashes over the vertex set (seeds) are combined independently of the listing order; ties between coordinate-equal inputs are broken by UUID before the position; nothing read from a process-wide static reaches a result. thread-local state is touched only by the scoped recursion guard of the heuristic rebuild; the epsilon de-duplication is fed vertices in canonical order. Decides the absence of '
            'nondeterminism sources (run-to-run / cross-process / cross-thread) and those necessary conditions of '
            'order-independence, not order-independence of the result as a whole.',
    'note': 'Trusted: rustc MIR callee resolution; hasher identification by type string (FxBuildHasher vs default); '
            'env-var reads are configuration, not nondeterminism. The cell-UUID tie-break in repair_local_facet_issues is an '
            'open item recorded in DESIGN.md.',
    'technique': 'call-graph reachability ban + value slices over rustc MIR',
    'design': '§5 C14',
}

NOT_APPLICABLE = {
    'C04': 'verdict is the sign of floating-point in-sphere determinants vs exact arithmetic (numerical); the only structural handle is a delegation shape that a correct re-implementation would break',
    'C10': 'correctness of point location is a sign pattern of orientation determinants along a walk (geometric); loop bound is covered under C19',
    'C12': 'floating-point determinant sign versus exact arithmetic on representable inputs: a numerical claim, not a shape of the code',
    'C15': 'equality of query results with brute-force face enumeration on all complexes: value-level, no structural handle',
    'C17': 'bijectivity/adjacency of the Hilbert transform and epsilon-dedup distance clauses are statements about values; permutation clause only pinned by a frozen code shape',
    'C18': 'numerical agreement with rational arithmetic and scaling laws',
}

PENDING = {}


def main():
    props = [json.loads(l)['id'] for l in open(os.path.join(VERIF, 'properties.jsonl'))]
    checks = []
    for pid in props:
        if pid in CLAIMED:
            c = CLAIMED[pid]
            checks.append({
                'property_id': pid,
                'quick_cmd': './check %s --tier quick' % pid,
                'thorough_cmd': './check %s --tier thorough' % pid,
                'evidence_file': 'evidence/%s.json' % pid,
                'replay_cmd_template': './check --explain {path}',
                'engine': 'mir-rules',
                'level_claimed': {'category': 'other', 'text': c['text'], 'design_ref': 'DESIGN.md ' + c['design']},
                'level_note': c['note'],
                'technique': c['technique'],
            })
    na = []
    for pid in props:
        if pid in CLAIMED:
            continue
        if pid in NOT_APPLICABLE:
            na.append({'property_id': pid, 'reason': NOT_APPLICABLE[pid]})
        else:
            na.append({'property_id': pid, 'reason': PENDING.get(pid, 'static check not built yet (see DESIGN.md §5)')})
    m = {
        'version': 1,
        'setup_cmd': 'cd engine/driver && CARGO_NET_OFFLINE=true cargo build --offline',
        'hooks': {
            'guard': 'delaunay_verif',
            'enable': 'none needed: the MIR extractor observes the unmodified crate (RUSTC_WORKSPACE_WRAPPER under cargo +nightly check); the cfg name is declared for form and never set',
            'baseline_off_cmd': 'cd /repo && cargo nextest run --workspace --no-fail-fast --test-threads 8 --offline || cargo test --workspace --no-fail-fast --offline',
            'source_commits': [],
            'add_only': True,
        },
        'engines': [
            {'name': 'mir-rules', 'path': 'engine/', 'serves_properties': sorted(CLAIMED),
             'kind_free_text': 'rustc_private MIR fact extractor (engine/driver) + Python rule engines over the resolved program (engine/rules): effect pairing, must-pass-through, rollback dataflow, loop/recursion/panic classification, field coverage'},
        ],
        'checks': checks,
        'not_applicable': na,
        'notes': 'All checks are static analyses of /repo\'s current working tree (fact base rebuilt when src/**, Cargo.toml or Cargo.lock change). quick = dev+release cfg; thorough = 4 cfgs (+no-default-features) plus witnesses/self-tests where they exist.',
    }
    with open(os.path.join(VERIF, 'MANIFEST.json'), 'w') as f:
        json.dump(m, f, indent=1)
    print('MANIFEST.json: %d checks, %d not_applicable' % (len(checks), len(na)))


if __name__ == '__main__':
    main()
