"""Compile-fail witnesses and const truth tables (witnesses/): built against /repo's current
tree with the nightly toolchain (`compile_fail,Exxxx` codes are only checked on nightly)."""
import os
import re
import shutil
import subprocess

VERIF = os.path.dirname(os.path.dirname(os.path.abspath(__file__)))
REPO = os.environ.get('VERIF_REPO', '/repo')
CACHE = os.path.join(VERIF, '.cache')


def run():
    """Returns (results, log): results = list of (name, kind, ok)."""
    src = os.path.join(CACHE, 'witness-src')
    os.makedirs(src, exist_ok=True)
    if os.path.isdir(os.path.join(src, 'src')):
        shutil.rmtree(os.path.join(src, 'src'))
    shutil.copytree(os.path.join(VERIF, 'witnesses', 'src'), os.path.join(src, 'src'))
    with open(os.path.join(VERIF, 'witnesses', 'Cargo.toml.in')) as f:
        toml = f.read().replace('@REPO@', REPO)
    with open(os.path.join(src, 'Cargo.toml'), 'w') as f:
        f.write(toml)
    shutil.copy(os.path.join(REPO, 'Cargo.lock'), os.path.join(src, 'Cargo.lock'))
    with open(os.path.join(src, 'rust-toolchain.toml'), 'w') as f:
        f.write('[toolchain]\nchannel = "nightly"\n')
    env = dict(os.environ, CARGO_TARGET_DIR=os.path.join(CACHE, 'witness-target'), CARGO_NET_OFFLINE='true')
    env.pop('RUSTC_WORKSPACE_WRAPPER', None)
    env.pop('RUSTFLAGS', None)
    r = subprocess.run(['cargo', '+nightly', 'test', '--doc', '--offline'], cwd=src, env=env,
                       stdout=subprocess.PIPE, stderr=subprocess.STDOUT, text=True)
    out = r.stdout
    results = []
    for m in re.finditer(r'^test src/lib\.rs - (\S+) \(line (\d+)\)( - compile fail)? \.\.\. (\w+)', out, re.M):
        results.append((m.group(1), 'compile_fail' if m.group(3) else 'twin', m.group(4) == 'ok'))
    built = 'Doc-tests delaunay_witnesses' in out
    # the const truth tables are part of the library build: if it built, they hold
    results.append(('consttable', 'const-eval', built))
    if not built:
        # find the failing const assertion, if any
        pass
    return results, out
