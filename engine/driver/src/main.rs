// dfacts — MIR fact extractor for the delaunay static checks.
//
// Injected with RUSTC_WORKSPACE_WRAPPER under `cargo +nightly check`. For the crate named by
// DFACTS_CRATE (default "delaunay") it writes one JSON record per line to DFACTS_OUT:
//   {"rec":"meta",...}, {"rec":"adt",...}, {"rec":"impl",...}, {"rec":"static",...},
//   {"rec":"body",...}
// Nothing is matched on text or positions here; positions are carried for reports only.
#![feature(rustc_private)]
#![allow(clippy::all)]

extern crate rustc_abi;
extern crate rustc_driver;
extern crate rustc_hir;
extern crate rustc_interface;
extern crate rustc_middle;
extern crate rustc_span;

use rustc_driver::{Callbacks, Compilation};
use rustc_hir::def::DefKind;
use rustc_hir::def_id::{DefId, LOCAL_CRATE};
use rustc_interface::interface::Compiler;
use rustc_middle::mir::{
    AggregateKind, AssertKind, BorrowKind, Body, Const, Operand, Place, PlaceTy, ProjectionElem,
    RawPtrKind, Rvalue, StatementKind, TerminatorKind, UnwindAction,
};
use rustc_middle::ty::{self, Ty, TyCtxt};
use rustc_span::Span;
use std::fmt::Write as _;

fn esc(s: &str, out: &mut String) {
    out.push('"');
    for c in s.chars() {
        match c {
            '"' => out.push_str("\\\""),
            '\\' => out.push_str("\\\\"),
            '\n' => out.push_str("\\n"),
            '\r' => out.push_str("\\r"),
            '\t' => out.push_str("\\t"),
            c if (c as u32) < 0x20 => {
                let _ = write!(out, "\\u{:04x}", c as u32);
            }
            c => out.push(c),
        }
    }
    out.push('"');
}

fn js(s: &str) -> String {
    let mut o = String::new();
    esc(s, &mut o);
    o
}

struct Ex<'tcx> {
    tcx: TyCtxt<'tcx>,
}

impl<'tcx> Ex<'tcx> {
    fn krate(&self, d: DefId) -> String {
        self.tcx.crate_name(d.krate).to_string()
    }

    fn path(&self, d: DefId) -> String {
        self.tcx.def_path_str(d)
    }

    /// Normalised, generics-free name of a function-like item.
    fn qname(&self, d: DefId) -> String {
        let tcx = self.tcx;
        match tcx.def_kind(d) {
            DefKind::Closure | DefKind::InlineConst | DefKind::AnonConst => {
                let p = tcx.parent(d);
                let idx = tcx
                    .def_path(d)
                    .data
                    .last()
                    .map(|x| {
                        let n = format!("{}", x.data);
                        format!("{{{}#{}}}", n.trim_matches(|c| c == '{' || c == '}'), x.disambiguator)
                    })
                    .unwrap_or_default();
                format!("{}::{}", self.qname(p), idx)
            }
            DefKind::AssocFn | DefKind::AssocConst { .. } | DefKind::AssocTy => {
                let p = tcx.parent(d);
                let name = tcx.item_name(d);
                match tcx.def_kind(p) {
                    DefKind::Impl { of_trait } => {
                        let self_ty = tcx.type_of(p).instantiate_identity().skip_norm_wip();
                        let st = self.ty_head(self_ty);
                        if of_trait {
                            let tr = tcx.impl_trait_ref(p).instantiate_identity().skip_norm_wip();
                            format!("<{} as {}{}>::{}", st, self.path(tr.def_id), self.trait_args(tr), name)
                        } else {
                            format!("{}::{}", st, name)
                        }
                    }
                    _ => format!("{}::{}", self.path(p), name),
                }
            }
            _ => self.path(d),
        }
    }

    /// Non-parameter generic arguments of a trait reference (`From<X>` → "<X>"), else "".
    fn trait_args(&self, tr: ty::TraitRef<'tcx>) -> String {
        let mut parts: Vec<String> = Vec::new();
        let mut any_concrete = false;
        for a in tr.args.iter().skip(1) {
            if let Some(t) = a.as_type() {
                if !matches!(t.kind(), ty::Param(_)) {
                    any_concrete = true;
                }
                parts.push(self.ty_head(t));
            } else if let Some(c) = a.as_const() {
                parts.push(format!("{}", c));
            }
        }
        if any_concrete { format!("<{}>", parts.join(", ")) } else { String::new() }
    }

    /// Head of a type without generic arguments (ADT path, or the printed type otherwise).
    fn ty_head(&self, t: Ty<'tcx>) -> String {
        match t.kind() {
            ty::Adt(adt, _) => self.path(adt.did()),
            ty::Ref(_, inner, m) => {
                format!("&{}{}", if m.is_mut() { "mut " } else { "" }, self.ty_head(*inner))
            }
            _ => format!("{}", t),
        }
    }

    fn loc(&self, sp: Span) -> (String, usize) {
        let sm = self.tcx.sess.source_map();
        let sp = sp.source_callsite();
        let lo = sm.lookup_char_pos(sp.lo());
        let name = format!("{}", lo.file.name.prefer_local_unconditionally());
        (name, lo.line)
    }

    fn line(&self, sp: Span) -> usize {
        // line of the outermost call site (macro expansions are attributed to their use site)
        let sm = self.tcx.sess.source_map();
        let mut sp = sp;
        while sp.from_expansion() {
            sp = sp.ctxt().outer_expn_data().call_site;
        }
        sm.lookup_char_pos(sp.lo()).line
    }

    fn expansion(&self, sp: Span) -> String {
        // JSON list of macro names from innermost to outermost
        let mut names: Vec<String> = Vec::new();
        let mut sp = sp;
        let mut guard = 0;
        while sp.from_expansion() && guard < 16 {
            let ed = sp.ctxt().outer_expn_data();
            names.push(format!("{}", ed.kind.descr()));
            sp = ed.call_site;
            guard += 1;
        }
        let mut o = String::from("[");
        for (i, n) in names.iter().enumerate() {
            if i > 0 {
                o.push(',');
            }
            esc(n, &mut o);
        }
        o.push(']');
        o
    }

    fn place(&self, body: &Body<'tcx>, p: &Place<'tcx>) -> String {
        let tcx = self.tcx;
        let mut o = String::new();
        let _ = write!(o, "[{},[", p.local.as_usize());
        let mut pty = PlaceTy::from_ty(body.local_decls[p.local].ty);
        for (i, elem) in p.projection.iter().enumerate() {
            if i > 0 {
                o.push(',');
            }
            match elem {
                ProjectionElem::Deref => o.push_str("\"*\""),
                ProjectionElem::Field(f, _) => {
                    let mut name = format!("{}", f.as_usize());
                    match pty.ty.kind() {
                        ty::Adt(adt, _) => {
                            let vi = pty.variant_index.unwrap_or(rustc_abi::FIRST_VARIANT);
                            if adt.is_enum() || adt.is_struct() || adt.is_union() {
                                if let Some(fd) = adt.variant(vi).fields.get(f) {
                                    name = fd.name.to_string();
                                }
                            }
                        }
                        ty::Closure(cd, _) => {
                            let names = tcx.closure_saved_names_of_captured_variables(*cd);
                            if let Some(n) = names.get(f) {
                                name = format!("^{}", n);
                            }
                        }
                        _ => {}
                    }
                    esc(&format!(".{}", name), &mut o);
                }
                ProjectionElem::Downcast(sym, vi) => {
                    let n = match sym {
                        Some(s) => s.to_string(),
                        None => format!("{}", vi.as_usize()),
                    };
                    esc(&format!("@{}", n), &mut o);
                }
                ProjectionElem::Index(l) => {
                    esc(&format!("[_{}]", l.as_usize()), &mut o);
                }
                ProjectionElem::ConstantIndex { offset, from_end, .. } => {
                    esc(&format!("[{}{}]", if from_end { "-" } else { "" }, offset), &mut o);
                }
                ProjectionElem::Subslice { .. } => o.push_str("\"[..]\""),
                _ => o.push_str("\"?\""),
            }
            pty = pty.projection_ty(tcx, elem);
        }
        o.push_str("]]");
        o
    }

    fn fn_const(&self, owner: DefId, t: Ty<'tcx>) -> Option<String> {
        // {"fn":qname,"path":def_path_str,"krate":..,"res":qname of resolved,"rk":kind,"ga":generic args}
        let tcx = self.tcx;
        if let ty::FnDef(did, args) = *t.kind() {
            let mut o = String::new();
            let _ = write!(
                o,
                "\"fn\":{},\"path\":{},\"krate\":{},\"ga\":{}",
                js(&self.qname(did)),
                js(&self.path(did)),
                js(&self.krate(did)),
                js(&format!("{:?}", args))
            );
            let tenv = ty::TypingEnv::post_analysis(tcx, owner);
            match ty::Instance::try_resolve(tcx, tenv, did, args) {
                Ok(Some(inst)) => {
                    let rd = inst.def_id();
                    let rk = match inst.def {
                        ty::InstanceKind::Item(_) => "item",
                        ty::InstanceKind::Intrinsic(_) => "intrinsic",
                        ty::InstanceKind::Virtual(..) => "virtual",
                        ty::InstanceKind::ClosureOnceShim { .. } => "closure_once",
                        ty::InstanceKind::FnPtrShim(..) => "fnptr",
                        ty::InstanceKind::DropGlue(..) => "dropglue",
                        ty::InstanceKind::CloneShim(..) => "cloneshim",
                        ty::InstanceKind::ReifyShim(..) => "reify",
                        _ => "othershim",
                    };
                    let _ = write!(
                        o,
                        ",\"res\":{},\"rkrate\":{},\"rk\":{}",
                        js(&self.qname(rd)),
                        js(&self.krate(rd)),
                        js(rk)
                    );
                }
                _ => {
                    let _ = write!(o, ",\"res\":null,\"rk\":\"unresolved\"");
                }
            }
            // self type of a method call, if any
            if let Some(first) = args.types().next() {
                let _ = write!(o, ",\"self\":{}", js(&self.ty_head(first)));
                let _ = write!(o, ",\"selfty\":{}", js(&format!("{}", first)));
            }
            Some(o)
        } else if let ty::Closure(did, _) = *t.kind() {
            Some(format!("\"closure\":{}", js(&self.qname(did))))
        } else {
            None
        }
    }

    fn operand(&self, owner: DefId, body: &Body<'tcx>, op: &Operand<'tcx>) -> String {
        match op {
            Operand::Copy(p) => format!("[\"c\",{}]", self.place(body, p)),
            Operand::Move(p) => format!("[\"m\",{}]", self.place(body, p)),
            Operand::Constant(c) => {
                let t = c.const_.ty();
                let mut o = String::from("[\"k\",{");
                let _ = write!(o, "\"ty\":{}", js(&format!("{}", t)));
                if let Some(f) = self.fn_const(owner, t) {
                    o.push(',');
                    o.push_str(&f);
                } else {
                    let _ = write!(o, ",\"v\":{}", js(&format!("{}", c.const_)));
                    let tenv = ty::TypingEnv::post_analysis(self.tcx, owner);
                    let is_scalar = t.is_integral() || t.is_bool() || t.is_char();
                    if is_scalar {
                        if let Const::Val(..) = c.const_ {
                            if let Some(si) = c.const_.try_eval_scalar_int(self.tcx, tenv) {
                                let sz = si.size();
                                let v = si.to_bits(sz);
                                let _ = write!(o, ",\"i\":{}", js(&format!("{}", v)));
                            }
                        }
                    }
                    if let Const::Unevaluated(uv, _) = c.const_ {
                        let _ = write!(o, ",\"uneval\":{}", js(&self.path(uv.def)));
                    }
                }
                o.push_str("}]");
                o
            }
            #[allow(unreachable_patterns)]
            _ => String::from("[\"k\",{\"ty\":\"?\",\"v\":\"runtime-checks\"}]"),
        }
    }

    fn rvalue(&self, owner: DefId, body: &Body<'tcx>, rv: &Rvalue<'tcx>) -> String {
        let tcx = self.tcx;
        match rv {
            Rvalue::Use(op, ..) => format!("{{\"k\":\"use\",\"o\":{}}}", self.operand(owner, body, op)),
            Rvalue::Repeat(op, _) => {
                format!("{{\"k\":\"repeat\",\"o\":{}}}", self.operand(owner, body, op))
            }
            Rvalue::Ref(_, bk, p) => {
                let m = match bk {
                    BorrowKind::Mut { .. } => "true",
                    _ => "false",
                };
                let fake = matches!(bk, BorrowKind::Fake(_));
                format!(
                    "{{\"k\":\"ref\",\"m\":{},\"fake\":{},\"p\":{}}}",
                    m,
                    fake,
                    self.place(body, p)
                )
            }
            Rvalue::RawPtr(k, p) => {
                let m = matches!(k, RawPtrKind::Mut);
                format!("{{\"k\":\"raw\",\"m\":{},\"p\":{}}}", m, self.place(body, p))
            }
            Rvalue::ThreadLocalRef(d) => format!("{{\"k\":\"tls\",\"def\":{}}}", js(&self.path(*d))),
            Rvalue::Cast(ck, op, t) => format!(
                "{{\"k\":\"cast\",\"ck\":{},\"o\":{},\"ty\":{}}}",
                js(&format!("{:?}", ck)),
                self.operand(owner, body, op),
                js(&format!("{}", t))
            ),
            Rvalue::BinaryOp(bop, ab) => format!(
                "{{\"k\":\"bin\",\"op\":{},\"a\":{},\"b\":{}}}",
                js(&format!("{:?}", bop)),
                self.operand(owner, body, &ab.0),
                self.operand(owner, body, &ab.1)
            ),
            Rvalue::UnaryOp(uop, op) => format!(
                "{{\"k\":\"un\",\"op\":{},\"o\":{}}}",
                js(&format!("{:?}", uop)),
                self.operand(owner, body, op)
            ),
            Rvalue::Discriminant(p) => format!("{{\"k\":\"discr\",\"p\":{}}}", self.place(body, p)),
            Rvalue::CopyForDeref(p) => {
                format!("{{\"k\":\"deref_copy\",\"p\":{}}}", self.place(body, p))
            }
            Rvalue::Aggregate(ak, ops) => {
                let mut o = String::from("{\"k\":\"agg\"");
                match &**ak {
                    AggregateKind::Array(_) => o.push_str(",\"ak\":\"array\""),
                    AggregateKind::Tuple => o.push_str(",\"ak\":\"tuple\""),
                    AggregateKind::Adt(did, vi, _, _, _) => {
                        let adt = tcx.adt_def(*did);
                        let v = adt.variant(*vi);
                        let _ = write!(
                            o,
                            ",\"ak\":\"adt\",\"adt\":{},\"variant\":{},\"krate\":{},\"fields\":[",
                            js(&self.path(*did)),
                            js(&v.name.to_string()),
                            js(&self.krate(*did))
                        );
                        for (i, f) in v.fields.iter().enumerate() {
                            if i > 0 {
                                o.push(',');
                            }
                            esc(&f.name.to_string(), &mut o);
                        }
                        o.push(']');
                    }
                    AggregateKind::Closure(did, _) => {
                        let _ = write!(o, ",\"ak\":\"closure\",\"def\":{}", js(&self.qname(*did)));
                        let names = tcx.closure_saved_names_of_captured_variables(*did);
                        o.push_str(",\"fields\":[");
                        for (i, n) in names.iter().enumerate() {
                            if i > 0 {
                                o.push(',');
                            }
                            esc(&n.to_string(), &mut o);
                        }
                        o.push(']');
                    }
                    AggregateKind::Coroutine(did, _) | AggregateKind::CoroutineClosure(did, _) => {
                        let _ = write!(o, ",\"ak\":\"coroutine\",\"def\":{}", js(&self.qname(*did)));
                    }
                    AggregateKind::RawPtr(..) => o.push_str(",\"ak\":\"rawptr\""),
                }
                o.push_str(",\"o\":[");
                for (i, op) in ops.iter().enumerate() {
                    if i > 0 {
                        o.push(',');
                    }
                    o.push_str(&self.operand(owner, body, op));
                }
                o.push_str("]}");
                o
            }
            _ => String::from("{\"k\":\"other\"}"),
        }
    }

    fn unwind(&self, u: &UnwindAction) -> String {
        match u {
            UnwindAction::Cleanup(bb) => format!("{}", bb.as_usize()),
            _ => String::from("null"),
        }
    }

    fn body(&self, did: DefId, out: &mut String) {
        let tcx = self.tcx;
        let kind = tcx.def_kind(did);
        let body: &Body<'tcx> = tcx.optimized_mir(did);
        let (file, line) = self.loc(tcx.def_span(did));
        let kstr = match kind {
            DefKind::Fn => "fn",
            DefKind::AssocFn => "method",
            DefKind::Closure => "closure",
            _ => "other",
        };
        let _ = write!(
            out,
            "{{\"rec\":\"body\",\"q\":{},\"path\":{},\"kind\":\"{}\",\"file\":{},\"line\":{}",
            js(&self.qname(did)),
            js(&self.path(did)),
            kstr,
            js(&file),
            line
        );
        let is_fn = matches!(kind, DefKind::Fn | DefKind::AssocFn);
        if is_fn {
            let vis = tcx.visibility(did);
            let _ = write!(out, ",\"pub\":{}", vis.is_public());
            if let Some(ld) = did.as_local() {
                let ev = tcx.effective_visibilities(());
                let _ = write!(out, ",\"exported\":{}", ev.is_exported(ld));
                let _ = write!(out, ",\"reachable\":{}", ev.is_reachable(ld));
            }
            let _ = write!(out, ",\"constness\":{}", tcx.is_const_fn(did));
            let _ = write!(out, ",\"name\":{}", js(&tcx.item_name(did).to_string()));
        }
        if matches!(kind, DefKind::Closure) {
            let _ = write!(out, ",\"parent\":{}", js(&self.qname(tcx.parent(did))));
        }
        let _ = write!(out, ",\"root\":{}", js(&self.qname(tcx.typeck_root_def_id(did))));
        if matches!(kind, DefKind::AssocFn) {
            let p = tcx.parent(did);
            if let DefKind::Impl { of_trait } = tcx.def_kind(p) {
                let st = tcx.type_of(p).instantiate_identity().skip_norm_wip();
                let _ = write!(out, ",\"impl_self\":{}", js(&self.ty_head(st)));
                if of_trait {
                    let tr = tcx.impl_trait_ref(p).instantiate_identity().skip_norm_wip();
                    let _ = write!(out, ",\"impl_trait\":{}", js(&self.path(tr.def_id)));
                    let _ = write!(out, ",\"impl_trait_args\":{}", js(&self.trait_args(tr)));
                }
            } else if matches!(tcx.def_kind(p), DefKind::Trait) {
                let _ = write!(out, ",\"trait_default\":{}", js(&self.path(p)));
            }
        }
        let _ = write!(out, ",\"nargs\":{}", body.arg_count);
        // locals
        out.push_str(",\"locals\":[");
        for (i, ld) in body.local_decls.iter().enumerate() {
            if i > 0 {
                out.push(',');
            }
            esc(&format!("{}", ld.ty), out);
        }
        out.push_str("],\"names\":{");
        let mut first = true;
        for vdi in body.var_debug_info.iter() {
            if let rustc_middle::mir::VarDebugInfoContents::Place(p) = &vdi.value {
                if !first {
                    out.push(',');
                }
                first = false;
                let key = if p.projection.is_empty() {
                    format!("{}", p.local.as_usize())
                } else {
                    format!("{}#{}", p.local.as_usize(), vdi.name)
                };
                let _ = write!(out, "{}:", js(&key));
                if p.projection.is_empty() {
                    esc(&vdi.name.to_string(), out);
                } else {
                    out.push_str(&self.place(body, p));
                }
            }
        }
        out.push_str("},\"blocks\":[");
        for (bi, bb) in body.basic_blocks.iter().enumerate() {
            if bi > 0 {
                out.push(',');
            }
            let _ = write!(out, "{{\"c\":{},\"s\":[", bb.is_cleanup);
            let mut firsts = true;
            for st in bb.statements.iter() {
                match &st.kind {
                    StatementKind::Assign(bx) => {
                        let (p, rv) = &**bx;
                        if !firsts {
                            out.push(',');
                        }
                        firsts = false;
                        let _ = write!(
                            out,
                            "[\"A\",{},{},{}]",
                            self.place(body, p),
                            self.rvalue(did, body, rv),
                            self.line(st.source_info.span)
                        );
                    }
                    StatementKind::SetDiscriminant { place, variant_index } => {
                        if !firsts {
                            out.push(',');
                        }
                        firsts = false;
                        let _ = write!(
                            out,
                            "[\"D\",{},{},{}]",
                            self.place(body, place),
                            variant_index.as_usize(),
                            self.line(st.source_info.span)
                        );
                    }
                    _ => {}
                }
            }
            out.push_str("],\"t\":");
            let term = bb.terminator();
            let tl = self.line(term.source_info.span);
            match &term.kind {
                TerminatorKind::Goto { target } => {
                    let _ = write!(out, "{{\"k\":\"goto\",\"t\":{},\"line\":{}}}", target.as_usize(), tl);
                }
                TerminatorKind::SwitchInt { discr, targets } => {
                    let _ = write!(
                        out,
                        "{{\"k\":\"switch\",\"d\":{},\"v\":[",
                        self.operand(did, body, discr)
                    );
                    for (i, (v, t)) in targets.iter().enumerate() {
                        if i > 0 {
                            out.push(',');
                        }
                        let _ = write!(out, "[{},{}]", js(&format!("{}", v)), t.as_usize());
                    }
                    let _ = write!(
                        out,
                        "],\"o\":{},\"line\":{}}}",
                        targets.otherwise().as_usize(),
                        tl
                    );
                }
                TerminatorKind::Return => {
                    let _ = write!(out, "{{\"k\":\"ret\",\"line\":{}}}", tl);
                }
                TerminatorKind::Unreachable => out.push_str("{\"k\":\"unreachable\"}"),
                TerminatorKind::UnwindResume => out.push_str("{\"k\":\"resume\"}"),
                TerminatorKind::UnwindTerminate(_) => out.push_str("{\"k\":\"abort\"}"),
                TerminatorKind::Drop { place, target, unwind, .. } => {
                    let _ = write!(
                        out,
                        "{{\"k\":\"drop\",\"p\":{},\"t\":{},\"u\":{},\"line\":{}}}",
                        self.place(body, place),
                        target.as_usize(),
                        self.unwind(unwind),
                        tl
                    );
                }
                TerminatorKind::Call { func, args, destination, target, unwind, call_source, fn_span } => {
                    let _ = write!(out, "{{\"k\":\"call\",\"f\":{},\"a\":[", self.operand(did, body, func));
                    for (i, a) in args.iter().enumerate() {
                        if i > 0 {
                            out.push(',');
                        }
                        out.push_str(&self.operand(did, body, &a.node));
                    }
                    let _ = write!(
                        out,
                        "],\"d\":{},\"t\":{},\"u\":{},\"src\":{},\"line\":{},\"exp\":{}}}",
                        self.place(body, destination),
                        match target {
                            Some(t) => format!("{}", t.as_usize()),
                            None => String::from("null"),
                        },
                        self.unwind(unwind),
                        js(&format!("{:?}", call_source)),
                        self.line(*fn_span),
                        self.expansion(term.source_info.span)
                    );
                }
                TerminatorKind::TailCall { func, args, .. } => {
                    let _ = write!(out, "{{\"k\":\"tailcall\",\"f\":{},\"a\":[", self.operand(did, body, func));
                    for (i, a) in args.iter().enumerate() {
                        if i > 0 {
                            out.push(',');
                        }
                        out.push_str(&self.operand(did, body, &a.node));
                    }
                    let _ = write!(out, "],\"line\":{}}}", tl);
                }
                TerminatorKind::Assert { cond, expected, msg, target, unwind } => {
                    let (mk, mops): (String, Vec<&Operand<'tcx>>) = match &**msg {
                        AssertKind::BoundsCheck { len, index } => ("BoundsCheck".into(), vec![len, index]),
                        AssertKind::Overflow(op, a, b) => (format!("Overflow({:?})", op), vec![a, b]),
                        AssertKind::OverflowNeg(a) => ("OverflowNeg".into(), vec![a]),
                        AssertKind::DivisionByZero(a) => ("DivisionByZero".into(), vec![a]),
                        AssertKind::RemainderByZero(a) => ("RemainderByZero".into(), vec![a]),
                        AssertKind::MisalignedPointerDereference { .. } => ("Misaligned".into(), vec![]),
                        AssertKind::NullPointerDereference => ("NullDeref".into(), vec![]),
                        _ => ("Other".into(), vec![]),
                    };
                    let _ = write!(
                        out,
                        "{{\"k\":\"assert\",\"c\":{},\"e\":{},\"m\":{},\"mo\":[",
                        self.operand(did, body, cond),
                        expected,
                        js(&mk)
                    );
                    for (i, a) in mops.iter().enumerate() {
                        if i > 0 {
                            out.push(',');
                        }
                        out.push_str(&self.operand(did, body, a));
                    }
                    let _ = write!(
                        out,
                        "],\"t\":{},\"u\":{},\"line\":{},\"exp\":{}}}",
                        target.as_usize(),
                        self.unwind(unwind),
                        tl,
                        self.expansion(term.source_info.span)
                    );
                }
                TerminatorKind::FalseEdge { real_target, .. } => {
                    let _ = write!(out, "{{\"k\":\"goto\",\"t\":{},\"line\":{}}}", real_target.as_usize(), tl);
                }
                TerminatorKind::FalseUnwind { real_target, .. } => {
                    let _ = write!(out, "{{\"k\":\"goto\",\"t\":{},\"line\":{}}}", real_target.as_usize(), tl);
                }
                _ => {
                    let _ = write!(out, "{{\"k\":\"other\",\"line\":{}}}", tl);
                }
            }
            out.push('}');
        }
        out.push_str("]}\n");
    }

    fn adts_and_impls(&self, out: &mut String) {
        let tcx = self.tcx;
        let ev = tcx.effective_visibilities(());
        for id in tcx.hir_free_items() {
            let did = id.owner_id.to_def_id();
            match tcx.def_kind(did) {
                DefKind::Struct | DefKind::Enum => {
                    let adt = tcx.adt_def(did);
                    let (file, line) = self.loc(tcx.def_span(did));
                    let _ = write!(
                        out,
                        "{{\"rec\":\"adt\",\"path\":{},\"kind\":\"{}\",\"pub\":{},\"exported\":{},\"file\":{},\"line\":{},\"variants\":[",
                        js(&self.path(did)),
                        if adt.is_enum() { "enum" } else { "struct" },
                        tcx.visibility(did).is_public(),
                        ev.is_exported(id.owner_id.def_id),
                        js(&file),
                        line
                    );
                    for (vi, v) in adt.variants().iter().enumerate() {
                        if vi > 0 {
                            out.push(',');
                        }
                        let _ = write!(out, "{{\"name\":{},\"fields\":[", js(&v.name.to_string()));
                        for (fi, f) in v.fields.iter().enumerate() {
                            if fi > 0 {
                                out.push(',');
                            }
                            let fty = tcx.type_of(f.did).instantiate_identity().skip_norm_wip();
                            let _ = write!(
                                out,
                                "{{\"name\":{},\"ty\":{},\"pub\":{}}}",
                                js(&f.name.to_string()),
                                js(&format!("{}", fty)),
                                f.vis.is_public()
                            );
                        }
                        out.push_str("]}");
                    }
                    out.push_str("]}\n");
                }
                DefKind::Impl { of_trait } => {
                    let st = tcx.type_of(did).instantiate_identity().skip_norm_wip();
                    let (file, line) = self.loc(tcx.def_span(did));
                    let _ = write!(
                        out,
                        "{{\"rec\":\"impl\",\"self\":{},\"selfty\":{},\"file\":{},\"line\":{}",
                        js(&self.ty_head(st)),
                        js(&format!("{}", st)),
                        js(&file),
                        line
                    );
                    if of_trait {
                        let tr = tcx.impl_trait_ref(did).instantiate_identity().skip_norm_wip();
                        let _ = write!(out, ",\"trait\":{}", js(&self.path(tr.def_id)));
                    }
                    out.push_str(",\"items\":[");
                    for (i, it) in tcx.associated_item_def_ids(did).iter().enumerate() {
                        if i > 0 {
                            out.push(',');
                        }
                        esc(&self.qname(*it), out);
                    }
                    out.push_str("]}\n");
                }
                DefKind::Static { .. } => {
                    let t = tcx.type_of(did).instantiate_identity().skip_norm_wip();
                    let (file, line) = self.loc(tcx.def_span(did));
                    let _ = write!(
                        out,
                        "{{\"rec\":\"static\",\"path\":{},\"ty\":{},\"file\":{},\"line\":{}}}\n",
                        js(&self.path(did)),
                        js(&format!("{}", t)),
                        js(&file),
                        line
                    );
                }
                DefKind::Const { .. } => {
                    let t = tcx.type_of(did).instantiate_identity().skip_norm_wip();
                    let (file, line) = self.loc(tcx.def_span(did));
                    let _ = write!(
                        out,
                        "{{\"rec\":\"const\",\"path\":{},\"ty\":{},\"file\":{},\"line\":{}}}\n",
                        js(&self.path(did)),
                        js(&format!("{}", t)),
                        js(&file),
                        line
                    );
                }
                _ => {}
            }
        }
    }
}

struct Cb;

impl Callbacks for Cb {
    fn after_analysis<'tcx>(&mut self, _c: &Compiler, tcx: TyCtxt<'tcx>) -> Compilation {
        let want = std::env::var("DFACTS_CRATE").unwrap_or_else(|_| "delaunay".to_string());
        let name = tcx.crate_name(LOCAL_CRATE).to_string();
        if name != want {
            return Compilation::Continue;
        }
        let Ok(outp) = std::env::var("DFACTS_OUT") else {
            return Compilation::Continue;
        };
        let ex = Ex { tcx };
        let mut out = String::with_capacity(64 << 20);
        let mut nbodies = 0usize;
        let _ = write!(
            out,
            "{{\"rec\":\"meta\",\"crate\":{},\"debug_assertions\":{},\"rustc\":{}}}\n",
            js(&name),
            tcx.sess.opts.debug_assertions,
            js(&format!("{}", option_env!("CFG_VERSION").unwrap_or("nightly")))
        );
        ex.adts_and_impls(&mut out);
        for ld in tcx.mir_keys(()).iter() {
            let did = ld.to_def_id();
            match tcx.def_kind(did) {
                DefKind::Fn | DefKind::AssocFn | DefKind::Closure => {}
                _ => continue,
            }
            // skip trait method declarations without bodies
            if !tcx.is_mir_available(did) {
                continue;
            }
            ex.body(did, &mut out);
            nbodies += 1;
        }
        let _ = write!(out, "{{\"rec\":\"end\",\"bodies\":{}}}\n", nbodies);
        if let Err(e) = std::fs::write(&outp, out) {
            eprintln!("dfacts: cannot write {}: {}", outp, e);
            std::process::exit(3);
        }
        Compilation::Continue
    }
}

fn main() {
    let argv: Vec<String> = std::env::args().collect();
    // RUSTC_WORKSPACE_WRAPPER: argv = [wrapper, rustc, args...]
    let mut args: Vec<String> = vec!["rustc".to_string()];
    args.extend(argv.into_iter().skip(2));
    let mut cb = Cb;
    rustc_driver::run_compiler(&args, &mut cb);
}
