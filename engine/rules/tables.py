"""Frozen instance tables shared by the property checks: leaf checker sets per validation level.
Entries are symbols (def-paths), never text or positions."""

T = 'core::triangulation_data_structure::Tds::'
TR = 'core::triangulation::Triangulation::'
DTQ = 'core::delaunay_triangulation::DelaunayTriangulation::'
MAN = 'topology::manifold::'
FL = 'core::algorithms::flips::'

# Level 1 — element validity
L1 = {
    'core::vertex::Vertex::is_valid',
    'core::cell::Cell::is_valid',
}
L1_COORD = '<geometry::point::Point as geometry::traits::coordinate::Coordinate>::validate'

# Level 2 — structural invariants of the Tds (the checks Tds::is_valid runs)
L2 = {
    T + 'validate_vertex_mappings',
    T + 'validate_cell_mappings',
    T + 'validate_cell_vertex_keys',
    T + 'validate_vertex_incidence',
    T + 'validate_no_duplicate_cells',
    T + 'validate_facet_sharing_with_facet_to_cells_map',
    T + 'validate_neighbors_with_facet_to_cells_map',
    T + 'validate_coherent_orientation',
}

# Level 3 — manifold topology
L3_CORE = {
    MAN + 'validate_facet_degree',
    MAN + 'validate_closed_boundary',
    TR + 'validate_geometric_cell_orientation',
    TR + 'validate_global_connectedness',
    TR + 'validate_no_isolated_vertices',
    'topology::characteristics::validation::validate_triangulation_euler_with_facet_to_cells_map',
}
L3_RIDGE = {MAN + 'validate_ridge_links'}
L3_VERTEX = {MAN + 'validate_vertex_links'}

# Level 4 — Delaunay
L4_VERIFY = {
    FL + 'verify_postcondition_k2_facets',
    FL + 'verify_postcondition_k3_ridges',
    FL + 'verify_postcondition_inverse_k2_edges',
    FL + 'verify_postcondition_inverse_k3_triangles',
}
L4_ENTRY = FL + 'verify_delaunay_via_flip_predicates'
L4_BRUTE = 'core::util::delaunay_validation::validate_cell_delaunay'

PRED_RIDGE = 'core::triangulation::TopologyGuarantee::requires_ridge_links'
PRED_VLINK_INS = 'core::triangulation::TopologyGuarantee::requires_vertex_links_during_insertion'
PRED_VLINK_DONE = 'core::triangulation::TopologyGuarantee::requires_vertex_links_at_completion'
