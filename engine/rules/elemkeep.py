"""ELEMKEEP — element conservation in the batch de-duplication family.

`dedup_vertices_*` consume the caller's vertices one by one.  In every loop that takes a vertex `v`
out of the input (`for v in vertices`, `while let Some(v) = iter.next()`), every path from the
binding of `v` to the next iteration or to a return must either hand `v` on by value (push onto the
output, `once(v)` in a forwarding chain, any call / aggregate that receives the vertex itself) or pass
a *duplicate verdict*: a branch on a per-iteration bool flag declared by the user in the loop, or the
true edge of a bool-returning call that received (a projection of) `v`.  A path on which `v` silently
disappears loses an input vertex that is neither present nor reported as skipped."""
import flow
import loops
import valueflow

FAMILY_PREFIX = 'core::delaunay_triangulation::dedup_vertices_'
VERTEX_TY = 'core::vertex::Vertex<'


def _copies(body, l0):
    out = {l0}
    work = [l0]
    uses = flow._collect_uses(body)
    while work:
        l = work.pop()
        for (ubb, _, node, how) in uses.get(l, []):
            if how == 'stmt' and node.rv.k == 'use' and node.rv.ops and node.rv.ops[0].place is not None and \
                    node.rv.ops[0].place.is_local() and node.rv.ops[0].place.local == l and node.place.is_local():
                if node.place.local not in out:
                    out.add(node.place.local)
                    work.append(node.place.local)
    return out


def check(ctx, cfg, prog, mod, rule):
    n_loops = 0
    for q, b in sorted(prog.bodies.items()):
        if not q.startswith(FAMILY_PREFIX) or b.kind == 'closure':
            continue
        al = mod.aliases(q)
        lps = loops.natural_loops(b)
        cflows = flow.all_call_flows(b)
        for h, nodes in sorted(lps.items()):
            # the element binding: `_v = move ((_opt as Some).0)` where _opt is the result of a `next` call in the loop
            binds = []
            for bb in sorted(nodes):
                t = b.blocks[bb].term
                if t.k != 'call' or (t.callee or t.resolved or '').rsplit('::', 1)[-1] != 'next':
                    continue
                if t.dest is None or not t.dest.is_local():
                    continue
                opt = t.dest.local
                for blk in b.blocks:
                    if blk.idx not in nodes or blk.cleanup:
                        continue
                    for s in blk.stmts:
                        if s.kind == 'A' and s.rv.k == 'use' and s.rv.ops and s.rv.ops[0].place is not None and \
                                s.rv.ops[0].place.local == opt and s.rv.ops[0].place.proj and s.place.is_local() and \
                                b.locals[s.place.local].startswith(VERTEX_TY):
                            binds.append((blk.idx, s.place.local))
            if not binds:
                continue
            for (bind_bb, v) in binds:
                n_loops += 1
                vs = _copies(b, v)
                # sinks: blocks in which the vertex itself is passed on by value
                sinks = set()
                for blk in b.blocks:
                    if blk.cleanup:
                        continue
                    t = blk.term
                    if t.k == 'call':
                        for o in t.args:
                            if o.place is not None and o.place.is_local() and o.place.local in vs:
                                sinks.add(blk.idx)
                    for s in blk.stmts:
                        if s.kind == 'A' and s.rv.k == 'agg':
                            for o in s.rv.ops:
                                if o.place is not None and o.place.is_local() and o.place.local in vs:
                                    sinks.add(blk.idx)
                # duplicate verdicts
                ok_edges = set()
                flags = set()
                for blk in b.blocks:
                    if blk.idx not in nodes or blk.cleanup:
                        continue
                    for s in blk.stmts:
                        if s.kind == 'A' and s.place.is_local() and b.locals[s.place.local] == 'bool' and s.rv.k == 'use' and \
                                s.rv.ops and s.rv.ops[0].kind == 'k' and s.place.local in b.names:
                            flags.add(s.place.local)
                for blk in b.blocks:
                    if blk.cleanup:
                        continue
                    t = blk.term
                    if t.k == 'switch' and t.discr.place is not None and t.discr.place.is_local():
                        d = t.discr.place.local
                        src = {d}
                        dd = b.single_def(d)
                        if dd is not None and dd[1] != 'term' and dd[2].rv.k in ('use', 'un') and dd[2].rv.ops and \
                                dd[2].rv.ops[0].place is not None:
                            src.add(dd[2].rv.ops[0].place.local)
                        if src & flags:
                            ok_edges |= {(blk.idx, s_) for s_ in b.succs(blk.idx)}
                    if t.k == 'call' and t.dest is not None and t.dest.is_local() and b.locals[t.dest.local] == 'bool':
                        uses_v = False
                        for o in t.args:
                            if o.place is None:
                                continue
                            for leaf in valueflow.sources(b, al, o.place.local):
                                pass
                            tt = al.operand_target(o)
                            roots = {o.place.local} | ({tt[0]} if tt is not None else set())
                            seen = set()
                            work = list(roots)
                            while work:
                                l = work.pop()
                                if l in seen:
                                    continue
                                seen.add(l)
                                if l in vs:
                                    uses_v = True
                                    break
                                for (dbb, idx, node) in b.defs.get(l, []):
                                    ops = node.args if idx == 'term' else (node.rv.ops + ([] if node.rv.place is None else []))
                                    for oo in ops:
                                        if oo.place is not None:
                                            work.append(oo.place.local)
                                            t2 = al.operand_target(oo)
                                            if t2 is not None:
                                                work.append(t2[0])
                                    if idx != 'term' and node.rv.place is not None:
                                        work.append(node.rv.place.local)
                        if uses_v and blk.idx in cflows:
                            ok_edges |= cflows[blk.idx].ok_edges
                # paths from the binding that lose v
                rets = {blk.idx for blk in b.blocks if not blk.cleanup and blk.term.k == 'ret'}
                seen = set()
                work = [(bind_bb, s_) for s_ in b.succs(bind_bb)]
                lost = None
                if bind_bb in sinks:
                    work = []
                while work and lost is None:
                    (a, x) = work.pop()
                    if (a, x) in ok_edges or b.blocks[x].cleanup:
                        continue
                    if x == h or x in rets:
                        lost = x
                        break
                    if x in seen or x in sinks:
                        continue
                    seen.add(x)
                    for s_ in b.succs(x):
                        work.append((x, s_))
                ok = lost is None
                ctx.ob(rule, '%s|%s' % (q, b.names.get(v, '_%d' % v)), cfg, ok,
                       'every iteration hands the element on (%d sink block(s)) or passes a duplicate verdict' % len(sinks) if ok else
                       'an iteration can reach %s without handing the vertex on and without a duplicate verdict: an input vertex '
                       'disappears (neither present in the result nor counted as skipped)' % (
                           'the next iteration' if lost == h else 'a return (line %d)' % b.blocks[lost].term.line),
                       site='%s:%d' % (b.file, b.blocks[bind_bb].term.line))
    ctx.floor('%s: element loops in the dedup family' % rule, 3, n_loops, cfg)


ORDER_PREFIX = 'core::delaunay_triangulation::order_vertices_'
NARROWING = {'filter', 'filter_map', 'take', 'skip', 'step_by', 'take_while', 'skip_while', 'truncate', 'retain',
             'retain_mut', 'dedup', 'dedup_by', 'dedup_by_key', 'pop', 'drain', 'split_off', 'swap_remove', 'remove',
             'chain', 'cycle', 'flat_map', 'nth', 'last', 'clear'}


def check_orderings(ctx, cfg, prog, mod, rule):
    """The ordering strategies return a permutation of their input: they move every vertex through
    enumerate / map / sort / collect and never apply a narrowing or duplicating adaptor to a vertex sequence."""
    n = 0
    for q, b in sorted(prog.bodies.items()):
        root = b.root or q
        if not root.startswith(ORDER_PREFIX):
            continue
        if b.kind != 'closure':
            n += 1
        bad = []
        for bb, t in b.calls():
            nm = (t.callee or t.resolved or '')
            last = nm.rsplit('::', 1)[-1]
            if last not in NARROWING:
                continue
            st = (t.func.const.get('selfty') or '') if t.func is not None and t.func.kind == 'k' else ''
            argty = ' '.join(b.locals[o.place.local] for o in t.args if o.place is not None)
            if 'vertex::Vertex<' in st or 'vertex::Vertex<' in argty:
                bad.append((last, t.line))
        if b.kind != 'closure' or bad:
            ctx.ob(rule, '%s|permutation' % q, cfg, not bad,
                   'no narrowing / duplicating adaptor on a vertex sequence' if not bad else
                   'adaptor(s) %s applied to a vertex sequence: the ordering no longer returns a permutation of its input' % bad,
                   site='%s:%d' % (b.file, b.line))
    ctx.floor('%s: ordering strategy functions' % rule, 3, n, cfg)
