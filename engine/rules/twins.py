"""TWINSET — sibling cross-check of a function and its statistics-returning twin.

Most of the construction / insertion API exists twice: `f` and `f_with[_construction]_statistics`.  The twins are
meant to do the same work; the statistics variant additionally records counters.  Rule: the sets of crate
functions the two call (closures included) are equal after (a) mapping every twin callee to its base name and
(b) ignoring the statistics bookkeeping functions and the constructors a wrapper delegates to.  A twin that delegates to the other is skipped."""

SUFFIXES = ('_with_construction_statistics', '_and_construction_statistics', '_with_statistics', '_with_stats')
STATS_OK = ('ConstructionStatistics::', 'InsertionStatistics::', '::record_', 'Default>::default', '::default',
            'DelaunayTriangulationConstructionErrorWithStatistics')


def _fam(prog, q):
    out = [q]
    for c in prog.children.get(q, []):
        out += _fam(prog, c)
    return out


def _base_name(n):
    for suf in SUFFIXES:
        if n.endswith(suf):
            return n[:-len(suf)]
    return n


def _callees(prog, q):
    s = set()
    for b in _fam(prog, q):
        for _, t in prog.bodies[b].calls():
            n = t.resolved or t.callee
            if n in prog.bodies and prog.bodies[n].kind != 'closure':
                s.add(n)
    return s


def pairs(prog):
    out = []
    for q in sorted(prog.bodies):
        if prog.bodies[q].kind == 'closure' or '::tests::' in q:
            continue
        for suf in SUFFIXES:
            if q.endswith(suf) and q[:-len(suf)] in prog.bodies:
                out.append((q[:-len(suf)], q))
    return out


def check(ctx, cfg, prog, rule, scope, floor):
    """scope(base qname) -> bool selects the pairs this property is responsible for."""
    n = 0
    for base, twin in pairs(prog):
        if not scope(base):
            continue
        ca, cb = _callees(prog, base), _callees(prog, twin)
        if twin in ca or base in cb:
            continue          # one is implemented through the other
        def keep(x):
            # statistics bookkeeping and the next constructor a thin wrapper delegates to are not compared
            return not any(k in x for k in STATS_OK) and 'DelaunayTriangulation<' not in prog.bodies[x].locals[0]
        na = {_base_name(x) for x in ca if keep(x)}
        nb = {_base_name(x) for x in cb if keep(x)}
        n += 1
        only_a, only_b = sorted(na - nb), sorted(nb - na)
        ok = not only_a and not only_b
        b = prog.bodies[twin]
        ctx.ob(rule, 'TWINSET|' + base, cfg, ok,
               'same %d crate callees (statistics bookkeeping aside)' % len(na & nb) if ok else
               'the twins call different functions: only %s calls %s; only its statistics twin calls %s' % (
                   base.rsplit('::', 1)[-1], [x.rsplit('::', 1)[-1] for x in only_a], [x.rsplit('::', 1)[-1] for x in only_b]),
               site='%s:%d' % (b.file, b.line))
    ctx.floor('%s: function / statistics-twin pairs' % rule, floor, n, cfg)
