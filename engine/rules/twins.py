"""TWINSET — sibling cross-check of a function and its statistics-returning twin.

Most of the construction / insertion API exists twice: `f` and `f_with[_construction]_statistics`.  The twins are
meant to do the same work; the statistics variant additionally records counters.  Rule: the sets of crate
functions the two *reach* (transitively, closures included) are equal after (a) mapping every twin callee to its base name and
(b) ignoring the statistics bookkeeping functions and the constructors a wrapper delegates to.  A twin that delegates to the other is skipped."""

SUFFIXES = ('_with_construction_statistics', '_and_construction_statistics', '_with_statistics', '_with_stats')
STATS_OK = ('ConstructionStatistics::', 'InsertionStatistics::', '::record_', 'Default>::default', '::default',
            'DelaunayTriangulationConstructionErrorWithStatistics',
            # derived / std-trait plumbing of crate types (copying a statistics sample, formatting an error) is not "work"
            ' as std::clone::Clone>::clone', ' as std::fmt::Debug>::fmt', ' as std::fmt::Display>::fmt',
            ' as std::cmp::PartialEq>::eq', ' as std::convert::From<')


def _fam(prog, q):
    out = [q]
    for c in prog.children.get(q, []):
        out += _fam(prog, c)
    return out


def _base_name(n):
    for suf in SUFFIXES:
        if n.endswith(suf):
            return n[:-len(suf)]
    return n


def _callees(prog, q):
    s = set()
    for b in _fam(prog, q):
        for _, t in prog.bodies[b].calls():
            n = t.resolved or t.callee
            if n in prog.bodies and prog.bodies[n].kind != 'closure':
                s.add(n)
    return s


def pairs(prog):
    out = []
    for q in sorted(prog.bodies):
        if prog.bodies[q].kind == 'closure' or '::tests::' in q:
            continue
        for suf in SUFFIXES:
            if q.endswith(suf) and q[:-len(suf)] in prog.bodies:
                out.append((q[:-len(suf)], q))
    return out


def _reach(prog, q, memo):
    """Crate functions (non-closure) reachable from q through calls and closures."""
    if q in memo:
        return memo[q]
    memo[q] = set()
    out = set()
    for c in _callees(prog, q):
        out.add(c)
        out |= _reach(prog, c, memo)
    memo[q] = out
    return out


def check(ctx, cfg, prog, rule, scope, floor):
    """scope(base qname) -> bool selects the pairs this property is responsible for."""
    n = 0
    memo = {}
    for base, twin in pairs(prog):
        if not scope(base):
            continue
        ca, cb = _callees(prog, base), _callees(prog, twin)
        if twin in ca or base in cb:
            continue          # one is implemented through the other

        def keep(x):
            # statistics bookkeeping and the next constructor a thin wrapper delegates to are not compared
            return not any(k in x for k in STATS_OK) and 'DelaunayTriangulation<' not in prog.bodies[x].locals[0]
        ra = {_base_name(x) for x in (ca | set().union(*[_reach(prog, c, memo) for c in ca])) if keep(x)} if ca else set()
        rb = {_base_name(x) for x in (cb | set().union(*[_reach(prog, c, memo) for c in cb])) if keep(x)} if cb else set()
        n += 1

        da = {_base_name(x) for x in ca if keep(x)}
        db = {_base_name(x) for x in cb if keep(x)}

        def wrapper_only(x, other_reach, other_direct):
            # a helper that merely regroups calls the other twin makes *itself* (an extracted private helper): everything
            # it reaches the other twin reaches too, and what it calls directly the other twin calls directly - a callee
            # the other twin only reaches deep inside a shared callee (a canonicalisation buried in the insertion layer)
            # does not make the helper redundant
            if x not in prog.bodies:
                return False
            rx = {_base_name(y) for y in _reach(prog, x, memo) if keep(y)}
            dx = {_base_name(y) for y in _callees(prog, x) if keep(y)}
            return bool(rx) and rx <= other_reach and dx <= other_direct
        only_a = sorted(x for x in ra - rb if not wrapper_only(x, rb, db))
        only_b = sorted(x for x in rb - ra if not wrapper_only(x, ra, da))
        ok = not only_a and not only_b
        b = prog.bodies[twin]
        ctx.ob(rule, 'TWINSET|' + base, cfg, ok,
               'the twins reach the same %d crate functions (statistics bookkeeping and extracted wrappers aside)' % len(ra & rb) if ok else
               'the twins do different work: only %s reaches %s; only its statistics twin reaches %s' % (
                   base.rsplit('::', 1)[-1], [x.rsplit('::', 1)[-1] for x in only_a][:6], [x.rsplit('::', 1)[-1] for x in only_b][:6]),
               site='%s:%d' % (b.file, b.line))
    ctx.floor('%s: function / statistics-twin pairs' % rule, floor, n, cfg)
