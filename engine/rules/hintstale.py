"""HINTSTALE — a stale hint is treated like no hint.

A `hint: Option<CellKey>` names a cell that may have been removed since the caller obtained it (the batch loop passes
`last_inserted_cell`, and the per-insertion flip repair routinely deletes that cell).  In every function that takes
such a hint and looks it up (`Tds::get_cell(key)` / `contains_cell(key)`), whatever *scan* of the whole triangulation
(`Tds::vertices`, `Tds::cells`, `Tds::cell_keys`, `locate_by_scan`) is reachable when the hint is `None` must also be
reachable from the lookup's not-found edge - unless that edge can only end in an error.  A fallback that runs for
`None` but not for `Some(stale)` computes with nothing (e.g. the local perturbation scale falls back to the constant
1.0, so the displacement of a retried vertex is 1e-8 in absolute terms instead of 1e-8 x local spacing)."""
import flow
import gate

HINT_TY = 'std::option::Option<core::triangulation_data_structure::CellKey>'
LOOKUPS = ('get_cell', 'contains_cell', 'get_cell_by_key', 'contains_cell_key')
SCANS = ('core::triangulation_data_structure::Tds::vertices', 'core::triangulation_data_structure::Tds::cells',
         'core::triangulation_data_structure::Tds::cell_keys', 'core::algorithms::locate::locate_by_scan')


def check(ctx, cfg, prog, mod, rule):
    import valueflow
    n = 0
    for q, b in sorted(prog.bodies.items()):
        if '::tests::' in q or not b.file.startswith('src/') or b.kind == 'closure':
            continue
        hints = [i for i in range(1, b.nargs + 1) if b.locals[i].replace(' ', '') == HINT_TY.replace(' ', '')]
        if not hints:
            continue
        al = mod.aliases(q)
        uses = flow._collect_uses(b)
        for h in hints:
            # copies of the hint
            carried = {h}
            work = [h]
            while work:
                l = work.pop()
                for (ubb, _, node, how) in uses.get(l, []):
                    if how == 'stmt' and node.rv.k == 'use' and node.place.is_local() and node.place.local not in carried and \
                            b.locals[node.place.local].replace(' ', '') == HINT_TY.replace(' ', ''):
                        carried.add(node.place.local)
                        work.append(node.place.local)
            none_targets = []
            for blk in b.blocks:
                if blk.cleanup or blk.term.k != 'switch' or blk.term.discr.place is None or not blk.term.discr.place.is_local():
                    continue
                d = b.single_def(blk.term.discr.place.local)
                if d is None or d[1] == 'term' or d[2].rv.k != 'discr' or d[2].rv.place is None or \
                        d[2].rv.place.local not in carried or d[2].rv.place.proj:
                    continue
                listed = {v: tg for v, tg in blk.term.values}
                t0 = listed.get(0, blk.term.otherwise if 0 not in listed else None)
                if t0 is not None:
                    none_targets.append(t0)
            stale_edges = set()
            for bb, t in b.calls():
                if (t.callee or t.resolved or '').rsplit('::', 1)[-1] not in LOOKUPS or len(t.args) < 2 or t.args[1].place is None:
                    continue
                if not any(x[0] == 'param' and x[1] == h for x in valueflow.sources(b, al, t.args[1].place.local)) and \
                        not any(x[0] == 'place' and x[1][0] == h for x in valueflow.sources(b, al, t.args[1].place.local)):
                    continue
                stale_edges |= flow.call_flow(b, bb).err_edges
            if not none_targets or not stale_edges:
                continue
            n += 1
            scans = {bb for bb, t in b.calls() if (t.resolved or t.callee) in SCANS}
            r_none = flow.reach_edges(b, none_targets) & scans
            r_stale_all = flow.reach_edges(b, [d for (_, d) in stale_edges])
            r_stale = r_stale_all & scans
            oks = {e['bb'] for e in gate.success_exit_blocks(b)}
            only_err = not (oks & r_stale_all) and flow.type_kind(b.locals[0]) in ('result', 'option')
            missing = sorted(r_none - r_stale)
            ok = not missing or only_err
            ctx.ob(rule, 'HINTSTALE|%s' % q, cfg, ok,
                   'scans reachable when the hint is None: %d; from the not-found edge of the hint lookup: %d%s' % (
                       len(r_none), len(r_stale),
                       '' if ok else '; the fallback at line(s) %s runs for `None` but not for a stale `Some(key)`: with a dangling '
                       'hint the function computes from nothing' % [b.blocks[x].term.line for x in missing]),
                   site='%s:%d' % (b.file, b.line))
    ctx.floor('%s: functions that look a cell hint up and have a scan fallback' % rule, 1, n, cfg)
