"""C13 — serialisation round trip (structural clauses).

 (a) FIELDCOVER  every field of Tds / Cell / Vertex / Point is written by its Serialize impl and
                 expected back by its Deserialize impl, or is in the reasoned skip table
                 (reconstructed or deliberately dropped); writer names == reader names;
 (b) REBUILD     the reconstructed parts really are reconstructed: Ok of the Tds visitor is
                 dominated by the success edges of assign_neighbors and assign_incident_cells;
 (c) GATE        Ok of the Tds visitor is dominated by the success edge of a call covering every
                 Level-2 structural validator and the Level-1 element validators ("input that does
                 not describe a structurally consistent complex is rejected rather than loaded");
                 DelaunayTriangulation's Deserialize goes through the Tds one.
Not decided: equality after the round trip, later insertions, key-gap handling (slotmap serde)."""
import flow
from collections import defaultdict
import gate
import tables

EXPLANATION = (
    "FIELDCOVER compares, from MIR, the string constants passed to SerializeStruct::serialize_field together "
    "with the receiver field each borrows, the field names the Deserialize visitors compare against, and the "
    "ADT field lists; a field that is neither written nor in the reasoned skip table is reported by name. "
    "REBUILD/GATE are must-pass-through checks: every Ok exit of <Tds as Deserialize>::visit_map must lie behind "
    "the success edge of the neighbour / incident-cell rebuild and of a call that covers all eight Level-2 "
    "validators and both Level-1 element validators. Round-trip equality itself is not decided.")

TDS = 'core::triangulation_data_structure::Tds'
ADTS = {
    TDS: {
        'uuid_to_vertex_key': 'reconstructed from the deserialised vertices in visit_map',
        'uuid_to_cell_key': 'reconstructed from the deserialised cells in visit_map',
        'construction_state': 'reset to Constructed (only constructed triangulations are serialised)',
        'generation': 'fresh counter: cache generations are deliberately not carried across a round trip',
    },
    'core::cell::Cell': {
        'vertices': 'VertexKeys are not stable: serialised by UUID in Tds."cell_vertices" and rebuilt by the Tds visitor',
        'neighbors': 'rebuilt by Tds::assign_neighbors after loading',
        'periodic_vertex_offsets': 'dropped: the property is scoped to Euclidean triangulations',
        '_phantom': 'zero-sized marker',
    },
    'core::vertex::Vertex': {
        'incident_cell': 'rebuilt by Tds::assign_incident_cells after loading',
    },
    'geometry::point::Point': {},
}
# extra, non-field entries a writer may emit (name -> reason)
EXTRA_WRITTEN = {TDS: {'cell_vertices': 'cell -> vertex UUID table replacing Cell.vertices'}}
# fields serialised as a sequence rather than by name
SEQUENCE = {'geometry::point::Point': {'coords'}}

ASSIGN_N = TDS + '::assign_neighbors'
ASSIGN_I = TDS + '::assign_incident_cells'


def _ser_body(prog, adt):
    for q, b in prog.bodies.items():
        if b.kind != 'closure' and b.impl_self == adt and (b.impl_trait or '').endswith('Serialize') and b.name == 'serialize':
            return b
    return None


def _de_bodies(prog, adt):
    """All bodies nested in `<adt as Deserialize>::deserialize` (visitors, field enums)."""
    out = []
    key1 = '<%s as ' % adt
    key2 = '<%s<' % adt
    for q, b in prog.bodies.items():
        if 'Deserialize' not in q:
            continue
        if q.startswith(key1) or (key2 in q):
            out.append(b)
    return out


def _sc(o):
    """String literal carried by a constant operand, else None."""
    if o.kind != 'k':
        return None
    v = o.const.get('v', '')
    if v.startswith('const "') and v.endswith('"'):
        return v[7:-1]
    if v.startswith('"') and v.endswith('"') and len(v) >= 2:
        return v[1:-1]
    return None


def _string_consts(body):
    out = []
    for blk in body.blocks:
        if blk.cleanup:
            continue
        for s in blk.stmts:
            if s.kind == 'A':
                for o in s.rv.ops:
                    if _sc(o) is not None:
                        out.append((_sc(o), None, s.line))
        t = blk.term
        if t.k == 'call':
            for o in t.args:
                if _sc(o) is not None:
                    out.append((_sc(o), t.resolved or t.callee, t.line))
    return out


def run(ctx):
    ctx.rule('FIELDCOVER', 'ADT fields = serialised fields + reasoned skip table; writer names = reader names')
    ctx.rule('REBUILD', 'Ok of the Tds visitor is dominated by the success edges of the neighbour and incident-cell rebuilds')
    ctx.rule('GATE', 'Ok of the Tds visitor is dominated by the success edge of a call covering all Level-2 and Level-1 validators')
    for cfg in ctx.cfgs:
        prog = ctx.prog(cfg)
        mod = ctx.mod(cfg)
        _fieldcover(ctx, cfg, prog, mod)
        _fieldkeep(ctx, cfg, prog, mod)
        _sentinel(ctx, cfg, prog, mod)
        _lookuperr(ctx, cfg, prog, mod)
        _eqorder(ctx, cfg, prog, mod)
        _seqarity(ctx, cfg, prog, mod)
        _readfinite(ctx, cfg, prog, mod)
        _refuse(ctx, cfg, prog)
        _keyowned(ctx, cfg, prog)
        _gates(ctx, cfg, prog, mod)
    return ctx.finish(EXPLANATION)


POINT_SER = '<geometry::point::Point as geometry::point::_::_serde::Serialize>::serialize'
NONFINITE_TRUE = ('is_nan', 'is_infinite')
FINITE_FALSE = ('is_finite_generic', 'is_finite')
FPCAT_NONFINITE = {0, 1}       # std::num::FpCategory::{Nan, Infinite} (declaration order)


# Refusals a reader decides *itself* (a direct call of `de::Error::custom` with its own message), per visitor: (count, what
# they refuse).  Errors of validators and rebuild helpers forwarded with `.map_err(de::Error::custom)?` are not in here (the
# function item is not a call), nor are the serde-generated missing / duplicate-field and length errors.
REFUSE_TABLE = {
    'Tds': (2, 'a cell entry that names an unknown vertex UUID; a `cell_vertices` key that names no cell'),
    'Cell': (1, 'a nil / malformed cell UUID'),
    'Vertex': (2, 'a nil / malformed vertex UUID; a point that fails validation'),
    'Point': (1, 'a coordinate token that is neither a number nor one of the non-finite spellings'),
}


def _keyowned(ctx, cfg, prog):
    """KEYOWNED (after fix F28): a hand-written visitor that reads its field names as `&str` works only with
    deserialisers that can lend the key out of the input (`from_str`, `from_slice`); `serde_json::from_reader`,
    `from_value` and every non-borrowing format fail on what the library serialised.  Every `MapAccess::next_key` /
    `next_entry` / `next_key_seed` call in a crate visitor produces an owned key type (String, a field enum, Cow)."""
    ctx.rule('KEYOWNED', 'hand-written map visitors read their keys as owned values, not as borrowed &str')
    n = 0
    for q, b in sorted(prog.bodies.items()):
        if not b.file.startswith('src/') or '::tests::' in q:
            continue
        for bb, t in b.calls():
            name = t.callee or t.resolved or ''
            if not (name.endswith('MapAccess::next_key') or name.endswith('MapAccess::next_entry')):
                continue
            ty = b.locals[t.dest.local] if t.dest is not None and t.dest.is_local() else ''
            n += 1
            borrowed = 'Option<&' in ty or 'Option<(&' in ty
            ctx.ob('KEYOWNED', '%s' % (b.root or q), cfg, not borrowed,
                   'keys are read as %s' % ty.split('Option<', 1)[-1].split(',')[0][:60] if not borrowed else
                   'keys are read as a borrowed string (%s): deserialisers that cannot lend out &str (from_reader, from_value) '
                   'refuse every serialised triangulation with "expected a borrowed string"' % ty.split('Option<', 1)[-1].split('>')[0],
                   site='%s:%d' % (b.file, t.line))
    ctx.floor('MapAccess key reads in crate visitors', 2, n, cfg)


def _refuse(ctx, cfg, prog):
    """REFUSE: "deserialising what was serialised yields the same triangulation" is broken by a reader that refuses a
    state the library can produce (a triangulation holding vertices and no cell yet).  Which states are legitimate is not
    decidable here; what is: every refusal the reader decides on its own is in the reviewed table, so a new one is
    reported for review instead of passing silently."""
    import re
    ctx.rule('REFUSE', 'refusals decided by a deserialiser itself do not exceed the reviewed table')
    counts = defaultdict(list)
    for q, b in sorted(prog.bodies.items()):
        if not b.file.startswith('src/') or '::tests::' in q:
            continue
        root = b.root or q
        if 'Deserialize' not in root or ('visit_map' not in root and 'visit_seq' not in root):
            continue
        m = re.search(r'::(\w+)<[^<>]*(?:<[^<>]*>[^<>]*)*> as [^>]*Deserialize', root)
        name = m.group(1) if m else root
        for bb, t in b.calls():
            n = t.resolved or t.callee or ''
            if n.endswith('Error>::custom') or n.endswith('de::Error::custom') or n.rsplit('::', 1)[-1] == 'custom' and 'Error' in n:
                counts[name].append((t.line, b.file))
    ctx.floor('deserialisers with a refusal of their own', 3, len(counts), cfg)
    for name, lst in sorted(counts.items()):
        ent = REFUSE_TABLE.get(name)
        site = '%s:%d' % (lst[0][1], lst[0][0])
        ok = ent is not None and len(lst) <= ent[0]
        ctx.ob('REFUSE', name, cfg, ok,
               '%d refusal(s) decided by the %s reader itself <= %d reviewed: %s' % (len(lst), name, ent[0], ent[1]) if ok else
               '%d refusal(s) decided by the %s reader itself at lines %s, %s: a new condition under which serialised data is '
               'rejected (a state the library can produce and write must load again)' % (
                   len(lst), name, [l for l, _ in lst], 'no table entry' if ent is None else 'table reviews %d' % ent[0]), site=site)


def _seqarity(ctx, cfg, prog, mod):
    """SEQARITY: a fixed-arity sequence reader (`Point`'s coordinate array) must refuse a sequence that ends early.
    In every `visit_seq` of the crate: when the body branches on the Option returned by `next_element` (a `while let
    Some(..)` / `match`), every path from the exhausted (`None`) side to an Ok exit passes an edge decided by a
    comparison with the const generic arity (`len == D`, `len < D` ..).  A reader that turns `None` into an error
    through `ok_or_else` / `ok_or` has no such branch and is fine as it is."""
    import gate
    import valueflow
    ctx.rule('SEQARITY', 'a fixed-arity sequence reader refuses input that ends early')
    n = 0
    for q, b in sorted(prog.bodies.items()):
        if b.kind == 'closure' or not q.endswith('::visit_seq') or not b.file.startswith('src/') or '::tests::' in q:
            continue
        n += 1
        al = mod.aliases(q)
        uses = flow._collect_uses(b)
        none_starts = []
        for bb, t in b.calls():
            if not (t.callee or t.resolved or '').rsplit('::', 1)[-1].startswith('next_element'):
                continue
            # locals carrying the Option payload: follow the result through `?` (branch / field moves)
            carried = set()
            work = [t.dest.local] if t.dest is not None and t.dest.is_local() else []
            while work:
                l = work.pop()
                if l in carried:
                    continue
                carried.add(l)
                for blk in b.blocks:
                    for s_ in blk.stmts:
                        if s_.kind == 'A' and s_.place.is_local() and s_.rv.k in ('use',) and s_.rv.ops and \
                                s_.rv.ops[0].place is not None and s_.rv.ops[0].place.local == l:
                            work.append(s_.place.local)
                    tt = blk.term
                    if tt.k == 'call' and (tt.callee or '').rsplit('::', 1)[-1] == 'branch' and tt.args and \
                            tt.args[0].place is not None and tt.args[0].place.local == l and tt.dest is not None and tt.dest.is_local():
                        work.append(tt.dest.local)
            for blk in b.blocks:
                if blk.cleanup or blk.term.k != 'switch' or blk.term.discr.place is None:
                    continue
                d = b.single_def(blk.term.discr.place.local) if blk.term.discr.place.is_local() else None
                if d is None or d[1] == 'term' or d[2].rv.k != 'discr' or d[2].rv.place is None or d[2].rv.place.local not in carried:
                    continue
                if not b.locals[d[2].rv.place.local].startswith('std::option::Option<'):
                    continue
                listed = {v: tg for v, tg in blk.term.values}
                none_t = listed.get(0, blk.term.otherwise if 0 not in listed else None)
                if none_t is not None:
                    none_starts.append(none_t)
        site = '%s:%d' % (b.file, b.line)
        if not none_starts:
            ctx.ob('SEQARITY', q, cfg, True, 'no branch on the Option of next_element: an early end is turned into an error by a combinator', site=site)
            continue
        # arity guards: switch edges decided by a comparison with the const generic D
        guards = set()
        for blk in b.blocks:
            if blk.cleanup or blk.term.k != 'switch' or blk.term.discr.place is None or not blk.term.discr.place.is_local():
                continue
            d = b.single_def(blk.term.discr.place.local)
            if d is None or d[1] == 'term' or d[2].rv.k != 'bin' or d[2].rv.raw.get('op') not in ('Eq', 'Ne', 'Lt', 'Le', 'Gt', 'Ge'):
                continue
            if any(o.kind == 'k' and isinstance(o.const, dict) and o.const.get('v') == 'D' for o in d[2].rv.ops):
                for s_ in b.succs(blk.idx):
                    guards.add((blk.idx, s_))
        oks = [e['bb'] for e in gate.success_exit_blocks(b)]
        reach = flow.reach_edges(b, none_starts, avoid_edges=guards)
        bad = [x for x in oks if x in reach]
        ctx.ob('SEQARITY', q, cfg, not bad,
               'from the exhausted side of next_element an Ok exit is %s' % (
                   'reachable only through a comparison with the arity D' if not bad else
                   'reachable without any comparison with the arity D: a coordinate array that is too short is loaded, the missing '
                   'coordinates keep their initial value'), site=site)
    ctx.floor('visit_seq readers in the crate', 1, n, cfg)


def _readfinite(ctx, cfg, prog, mod):
    """READFINITE: `Point`'s reader deliberately parses `null`, "NaN", "Infinity", "-inf" into non-finite values (so that
    a Point round-trips); the *Vertex* reader is what keeps them out of a triangulation.  Every Ok exit of the Vertex
    reader's `visit_map` lies behind the success edge of a finiteness validation of the point (`Coordinate::validate`,
    `Vertex::is_valid`), or the body tests `is_finite` on the coordinates (a test for NaN alone lets +-inf through)."""
    import gate
    import tables
    ctx.rule('READFINITE', 'the Vertex reader refuses every non-finite coordinate')
    lv = gate.Leaves(prog)
    n = 0
    for q, b in sorted(prog.bodies.items()):
        if b.kind == 'closure' or not q.endswith('::visit_map') or 'core::vertex::Vertex<' not in q or not b.file.startswith('src/'):
            continue
        n += 1
        r = gate.must_pass(prog, lv, b, {tables.L1_COORD}, mode='any')
        r2 = gate.must_pass(prog, lv, b, {'core::vertex::Vertex::is_valid'}, mode='any')
        names = set()
        for bq in [q] + list(prog.children.get(q, [])):
            bb_ = prog.bodies.get(bq)
            if bb_ is not None:
                names |= {(t.callee or t.resolved or '').rsplit('::', 1)[-1] for _, t in bb_.calls()}
        ok = r['ok'] or r2['ok'] or 'is_finite' in names
        ctx.ob('READFINITE', q, cfg, ok,
               'Ok of the Vertex reader %s' % (
                   'lies behind Coordinate::validate' if r['ok'] else 'lies behind Vertex::is_valid' if r2['ok'] else
                   'tests is_finite on the coordinates' if ok else
                   'is reachable without a finiteness validation of the point (%s): a coordinate written as "Infinity" / "-inf" is '
                   'loaded, and only Level 1 of a later validate() notices' % ('only is_nan is tested' if 'is_nan' in names else
                                                                                'no finiteness test at all')),
               site='%s:%d' % (b.file, b.line))
    ctx.floor('Vertex reader (visit_map)', 1, n, cfg)


def _sentinel(ctx, cfg, prog, mod):
    """SENTINEL: the coordinate serialiser may replace a value by a sentinel (null / "Infinity") only
    for non-finite values: every element write whose argument is not the coordinate itself is
    unreachable once the non-finite edges (false edge of is_finite*, true edge of is_nan /
    is_infinite, the Nan / Infinite arms of a match on classify()) are removed."""
    import flow
    import valueflow
    ctx.rule('SENTINEL', 'Point::serialize writes a sentinel instead of the coordinate only on a non-finite edge')
    b = ctx.anchor(cfg, POINT_SER)
    if b is None:
        return
    al = mod.aliases(POINT_SER)
    value_writes, sentinel_writes = [], []
    for bb, t in b.calls():
        if (t.callee or t.resolved or '').rsplit('::', 1)[-1] != 'serialize_element' or len(t.args) < 2:
            continue
        o = t.args[1]
        from_self = False
        if o.place is not None:
            for leaf in valueflow.sources(b, al, o.place.local):
                if leaf[0] == 'place' and leaf[1][0] == 1 and 'coords' in leaf[1][1]:
                    from_self = True
                if leaf[0] == 'call' and (leaf[1].callee or '').endswith('::next'):
                    from_self = True      # the loop variable over self.coords
        (value_writes if from_self else sentinel_writes).append(bb)
    cut = set()
    for bb, t in b.calls():
        last = (t.callee or t.resolved or '').rsplit('::', 1)[-1]
        cf = None
        if last in NONFINITE_TRUE:
            cf = flow.call_flow(b, bb)
            cut |= cf.ok_edges
        elif last in FINITE_FALSE:
            cf = flow.call_flow(b, bb)
            cut |= cf.err_edges
        elif last == 'classify' and t.dest is not None and t.dest.is_local():
            uses = flow._collect_uses(b)
            locs = {t.dest.local}
            for (ubb, _, node, how) in uses.get(t.dest.local, []):
                if how == 'stmt' and node.rv.k in ('discr', 'use') and node.place.is_local():
                    locs.add(node.place.local)
            for l in list(locs):
                for (ubb, _, node, how) in uses.get(l, []):
                    if how == 'stmt' and node.rv.k == 'discr' and node.place.is_local():
                        locs.add(node.place.local)
            for l in locs:
                for (sbb, _, snode, how) in uses.get(l, []):
                    if how == 'switch':
                        for v, tg in snode.values:
                            if v in FPCAT_NONFINITE and tg != snode.otherwise:
                                cut.add((sbb, tg))
    reach = flow.reach_edges(b, [0], avoid_edges=cut)
    bad = [bb for bb in sentinel_writes if bb in reach]
    ctx.ob('SENTINEL', POINT_SER, cfg, bool(value_writes) and not bad,
           'element writes: %d of the coordinate, %d sentinel(s); sentinel writes reachable without a non-finite edge: %s' % (
               len(value_writes), len(sentinel_writes),
               'none' if not bad else 'blocks %s (lines %s): a finite coordinate (e.g. a subnormal) can be written as a sentinel and '
               'is then refused or altered on load' % (bad, [b.blocks[x].term.line for x in bad])),
           site='%s:%d' % (b.file, b.line))
    ctx.floor('coordinate element writes in Point::serialize', 1, len(value_writes), cfg)


def _fieldcover(ctx, cfg, prog, mod):
    for adt, skip in ADTS.items():
        rec = prog.adts.get(adt)
        if rec is None:
            ctx.ob('ANCHOR', 'missing-adt|' + adt, cfg, False, 'ADT %s not found' % adt)
            continue
        fields = [f['name'] for f in rec['variants'][0]['fields']]
        ser = _ser_body(prog, adt)
        if ser is None:
            ctx.ob('ANCHOR', 'missing-serialize|' + adt, cfg, False, 'no Serialize impl body for %s' % adt)
            continue
        al = mod.aliases(ser.q)
        written = {}       # name -> field
        seq_fields = set()
        for bb, t in ser.calls():
            n = (t.callee or '').rsplit('::', 1)[-1]
            if n == 'serialize_field' and len(t.args) >= 3:
                name = _sc(t.args[1])
                tg = al.operand_target(t.args[2])
                fld = tg[1][0] if tg and tg[0] == 1 and tg[1] else None
                if name is not None:
                    written[name] = fld
            elif n in ('serialize_element', 'serialize_entry', 'collect_seq', 'collect_map'):
                for o in t.args:
                    tg = al.operand_target(o)
                    if tg and tg[0] == 1 and tg[1]:
                        seq_fields.add(tg[1][0])
        # any borrow of a self field inside serialize counts for sequence-style writers
        if adt in SEQUENCE:
            for blk in ser.blocks:
                for s in blk.stmts:
                    if s.kind == 'A' and s.rv.place is not None:
                        r_, f_, _ = al.norm(s.rv.place)
                        if r_ == 1 and f_:
                            seq_fields.add(f_[0])
        de_names = set()       # names the reader recognises
        de_required = set()    # names the reader insists on (missing_field)
        for b in _de_bodies(prog, adt):
            for (sv, callee, line) in _string_consts(b):
                c = (callee or '').rsplit('::', 1)[-1]
                if c in ('eq', 'missing_field', 'duplicate_field') or (callee or '').endswith('PartialEq<str>>::eq'):
                    de_names.add(sv)
                if c == 'missing_field':
                    de_required.add(sv)
        extra = EXTRA_WRITTEN.get(adt, {})
        # 1. every field covered
        for f in fields:
            direct = f in written.values() or (f in SEQUENCE.get(adt, ()) and f in seq_fields)
            if direct:
                ctx.ob('FIELDCOVER', '%s.%s' % (adt, f), cfg, True, 'serialised', site='%s:%d' % (ser.file, ser.line))
            elif f in skip:
                ctx.ob('FIELDCOVER', '%s.%s' % (adt, f), cfg, True, 'not serialised; skip table: ' + skip[f],
                       nontrivial=False, site='%s:%d' % (ser.file, ser.line))
            else:
                ctx.ob('FIELDCOVER', '%s.%s' % (adt, f), cfg, False,
                       'field `%s` of %s is neither written by its Serialize impl nor in the reasoned skip table: '
                       'its value is silently lost on a round trip' % (f, adt), site='%s:%d' % (rec['file'], rec['line']))
        # a skip-table field that is in fact serialised, or no longer exists: table drift
        for f in skip:
            if f not in fields:
                ctx.ob('FIELDCOVER', '%s.%s|table' % (adt, f), cfg, False,
                       'skip table names field `%s` that %s no longer has' % (f, adt))
        # 2. writer names == reader names
        if adt not in SEQUENCE:
            for name, fld in written.items():
                ok = name in de_names
                ctx.ob('FIELDCOVER', '%s|written:%s' % (adt, name), cfg, ok,
                       'written entry "%s" (field %s) %s by the Deserialize visitor' % (
                           name, fld, 'is expected' if ok else 'is NOT read back'),
                       site='%s:%d' % (ser.file, ser.line))
                if fld is None and name not in extra:
                    ctx.ob('FIELDCOVER', '%s|extra:%s' % (adt, name), cfg, False,
                           'written entry "%s" is not a field and not in the table of derived entries' % name)
            for name in sorted(de_required):
                ok = name in written
                ctx.ob('FIELDCOVER', '%s|read:%s' % (adt, name), cfg, ok,
                       'entry "%s" required by the reader (missing_field) %s written' % (name, 'is' if ok else 'is NOT'))
        if cfg == ctx.cfgs[0]:
            ctx.sample({'rule': 'FIELDCOVER', 'adt': adt, 'fields': fields, 'written': written,
                        'sequence_fields': sorted(seq_fields & set(fields)), 'reader_names': sorted(de_names)})
    ctx.floor('FIELDCOVER ADTs', 4, len([a for a in ADTS if a in prog.adts]), cfg)


ELEMENT_TYPES = {'core::cell::Cell': 'core::cell::Cell<', 'core::vertex::Vertex': 'core::vertex::Vertex<'}


def _fieldkeep(ctx, cfg, prog, mod):
    """FIELDKEEP: between reading the elements from the input and returning the Tds, the visitor may
    only write the element fields that are *reconstructed* (skip table); overwriting a whole element
    or one of its serialised fields silently discards what was just read."""
    ctx.rule('FIELDKEEP', 'the Tds visitor writes only reconstructed element fields (never a whole element or a serialised field)')
    vm = _visit_map(prog, TDS)
    if vm is None:
        return
    bodies = [vm] + [prog.bodies[c] for c in prog.children.get(vm.q, []) if c in prog.bodies]
    n = 0
    bad = []
    for b in bodies:
        al = mod.aliases(b.q)

        def judge(root, fields, what, line):
            nonlocal n
            if '[]' not in fields:
                return
            i = fields.index('[]')
            # which element type? decided by the map the path goes through
            owner_ty = b.locals[root] if root < len(b.locals) else ''
            before = fields[:i]
            adt = None
            if 'cells' in before or ELEMENT_TYPES['core::cell::Cell'] in owner_ty:
                adt = 'core::cell::Cell'
            elif 'vertices' in before or ELEMENT_TYPES['core::vertex::Vertex'] in owner_ty:
                adt = 'core::vertex::Vertex'
            if adt is None:
                return
            n += 1
            sub = fields[i + 1:]
            skip = ADTS[adt]
            if not sub:
                bad.append((adt, '(whole element)', what, line, b))
            elif sub[0] not in skip and sub[0] != '[]':
                bad.append((adt, sub[0], what, line, b))

        for blk in b.blocks:
            if blk.cleanup:
                continue
            for st in blk.stmts:
                root, fields, derefd = al.norm(st.place)
                if derefd:
                    judge(root, fields, 'assignment', st.line)
            t = blk.term
            if t.k == 'call':
                for i_, o in enumerate(t.args):
                    tt = al.operand_target(o)
                    if tt is None or not tt[2]:
                        continue
                    for cp in mod.callee_mod(t, i_, b):
                        judge(tt[0], tt[1] + cp, 'call ' + (t.resolved or t.callee or '?'), t.line)
    keys = set()
    for (adt, fld, what, line, b) in bad:
        key = '%s|%s' % (adt, fld)
        if key in keys:
            continue
        keys.add(key)
        ctx.ob('FIELDKEEP', key, cfg, False,
               'the Tds deserialiser overwrites %s of a %s it has just read (%s): the serialised value is discarded' % (
                   fld, adt.rsplit('::', 1)[-1], what), site='%s:%d' % (b.file, line))
    ctx.ob('FIELDKEEP', 'scan', cfg, True, 'element writes examined in the Tds visitor: %d; offending: %d' % (n, len(bad)))
    ctx.floor('element writes in the Tds visitor (vertex-key rebuild, neighbour / incidence rebuild)', 2, n, cfg)


def _visit_map(prog, adt):
    for b in _de_bodies(prog, adt):
        if b.kind != 'closure' and b.name == 'visit_map' and 'Visitor' in (b.impl_trait or ''):
            return b
    return None


TDS_EQ = '<core::triangulation_data_structure::Tds as std::cmp::PartialEq<core::triangulation_data_structure::Tds>>::eq'


def _eqorder(ctx, cfg, prog, mod):
    """EQORDER: "compares equal to the original": slot-map iteration order is not preserved by removals followed
    by a round trip (dense storage swaps on removal, serde rebuilds in slot order), so Tds equality must not
    compare storage contents position by position: every element-wise comparison in `Tds::eq` whose operands
    come from iterating a slot-map storage must see them through a sort."""
    ctx.rule('EQORDER', 'Tds equality compares storage contents order-independently (sorted before an element-wise comparison)')
    b = ctx.anchor(cfg, TDS_EQ)
    if b is None:
        return
    # local-level derivation graph: dst <- src when dst is a reference to / copy of / call result over src
    back = {}
    for blk in b.blocks:
        if blk.cleanup:
            continue
        for s_ in blk.stmts:
            if s_.kind == 'A' and s_.place.is_local():
                srcs = [o.place.local for o in s_.rv.ops if o.place is not None]
                if s_.rv.place is not None:
                    srcs.append(s_.rv.place.local)
                back.setdefault(s_.place.local, set()).update(srcs)
        t = blk.term
        if t.k == 'call' and t.dest is not None and t.dest.is_local():
            back.setdefault(t.dest.local, set()).update(o.place.local for o in t.args if o.place is not None)

    def origins(l):
        seen, work = set(), [l]
        while work:
            x = work.pop()
            if x in seen:
                continue
            seen.add(x)
            work.extend(back.get(x, ()))
        return seen

    # locals produced by iterating a slot-map storage
    storage_iters = set()
    for bb, t in b.calls():
        cn = (t.callee or t.resolved or '')
        st = (t.func.const.get('selfty') or '') if t.func is not None and t.func.kind == 'k' else ''
        if cn.rsplit('::', 1)[-1] in ('values', 'iter', 'into_iter', 'values_mut') and 'SlotMap' in (cn + st) and \
                t.dest is not None and t.dest.is_local():
            storage_iters.add(t.dest.local)
    # collections that get sorted: origins of the receiver of every sort* call
    sorted_origins = set()
    for bb, t in b.calls():
        if (t.callee or t.resolved or '').rsplit('::', 1)[-1].startswith('sort') and t.args and t.args[0].place is not None:
            sorted_origins |= origins(t.args[0].place.local)
    n = 0
    for bb, t in b.calls():
        last = (t.callee or t.resolved or '').rsplit('::', 1)[-1]
        if last not in ('eq', 'ne', 'zip', 'cmp', 'partial_cmp', 'eq_by', 'lt', 'le'):
            continue
        ops = [o.place.local for o in t.args if o.place is not None]
        from_storage = [l for l in ops if origins(l) & storage_iters]
        if not from_storage:
            continue
        n += 1
        # each storage-derived operand must share an origin (the collected vector) with a sorted receiver,
        # other than the storage iterator itself
        ok = all((origins(l) - storage_iters - origins_of_iters(b, back, storage_iters)) & sorted_origins for l in from_storage)
        ctx.ob('EQORDER', '%s|cmp%d' % (TDS_EQ, n), cfg, ok,
               '%s over slot-map contents sees them through a sort' % last if ok else
               '%s at line %d compares slot-map contents in iteration order: after a removal and a round trip the same '
               'triangulation iterates in a different order and no longer compares equal' % (last, t.line),
               site='%s:%d' % (b.file, t.line))
    ctx.floor('element-wise comparisons of storage contents in Tds::eq', 2, n, cfg)


def origins_of_iters(b, back, storage_iters):
    """Everything the storage iterators themselves derive from (self / other and the storage fields): sharing
    those is no evidence of a sort."""
    seen, work = set(), list(storage_iters)
    while work:
        x = work.pop()
        if x in seen:
            continue
        seen.add(x)
        work.extend(back.get(x, ()))
    return seen


def _lookuperr(ctx, cfg, prog, mod):
    """LOOKUPERR: while the reader re-links cells to vertices through the UUID tables, a failed lookup (a cell
    without an entry in `cell_vertices`, a vertex UUID that is not among the vertices) must end in an error:
    from the None edge of every map lookup in the Tds visitor neither an Ok exit nor the continuation of the
    surrounding loop is reachable ("input that does not describe a consistent complex is rejected")."""
    import flow
    ctx.rule('LOOKUPERR', 'in the Tds reader a failed UUID lookup leads only to an error exit')
    vm = _visit_map(prog, TDS)
    if vm is None:
        return
    n = 0
    for bb, t in vm.calls():
        nm = (t.callee or t.resolved or '')
        st = (t.func.const.get('selfty') or '') if t.func is not None and t.func.kind == 'k' else ''
        if nm.rsplit('::', 1)[-1] != 'get' or 'HashMap' not in (nm + st):
            continue
        cf = flow.call_flow(vm, bb)
        n += 1
        if not cf.err_edges:
            ctx.ob('LOOKUPERR', '%s|lookup%d' % (vm.q, n), cfg, False,
                   'the result of the lookup at line %d is not tested for None' % t.line, site='%s:%d' % (vm.file, t.line))
            continue
        region = flow.reach_edges(vm, [d for (_, d) in cf.err_edges], avoid_edges=cf.ok_edges)
        oks = [e['bb'] for e in flow.exit_assignments(vm) if e['cls'] == 'ok']
        bad_ok = [x for x in oks if x in region]
        loops_on = bb in region
        ok = not bad_ok and not loops_on
        ctx.ob('LOOKUPERR', '%s|lookup%d' % (vm.q, n), cfg, ok,
               'None edge of the lookup reaches only error exits' if ok else
               'from the None edge of the lookup at line %d %s is reachable: an unknown UUID is skipped instead of rejected' % (
                   t.line, 'the Ok exit' if bad_ok else 'the next iteration'), site='%s:%d' % (vm.file, t.line))
    ctx.floor('UUID-table lookups in the Tds reader', 2, n, cfg)


def _gates(ctx, cfg, prog, mod):
    vm = _visit_map(prog, TDS)
    if vm is None:
        ctx.ob('ANCHOR', 'missing|Tds visitor visit_map', cfg, False, 'Tds Deserialize visitor not found')
        return
    lv = gate.Leaves(prog)
    site = '%s:%d' % (vm.file, vm.line)
    for leaf in (ASSIGN_N, ASSIGN_I):
        r = gate.must_pass(prog, lv, vm, {leaf})
        ctx.ob('REBUILD', '%s|%s' % (vm.q, leaf), cfg, r['ok'], gate.describe(vm, r), site=site)
    r = gate.must_pass(prog, lv, vm, set(tables.L2))
    detail = gate.describe(vm, r)
    if not r['gates']:
        # say which callee comes closest
        detail += '; no call in the visitor reaches all of the %d Level-2 validators' % len(tables.L2)
    ctx.ob('GATE', vm.q + '|L2', cfg, r['ok'], detail, site=site)
    r1 = gate.must_pass(prog, lv, vm, set(tables.L1))
    ctx.ob('GATE', vm.q + '|L1', cfg, r1['ok'], gate.describe(vm, r1), site=site)
    if cfg == ctx.cfgs[0]:
        ctx.sample({'rule': 'GATE', 'function': vm.q, 'L2_gates': [g[1] for g in r['gates']], 'ok_exits': r['targets']})
    # DelaunayTriangulation: its Deserialize must obtain the Tds through <Tds as Deserialize>
    dts = [b for b in _de_bodies(prog, 'core::delaunay_triangulation::DelaunayTriangulation') if b.kind != 'closure' and b.name == 'deserialize']
    ctx.floor('DelaunayTriangulation Deserialize impl', 1, len(dts), cfg)
    for b in dts:
        reach = lv.reach_set(b.q)
        tds_de = [q for q in reach if q.startswith('<%s as ' % TDS) and q.endswith('::deserialize')]
        # the impl is bounded by `Tds<..>: Deserialize`, so the call stays a trait call on Self = Tds
        for _, t in b.calls():
            if (t.callee or '').endswith('Deserialize::deserialize') and t.self_ty == TDS:
                tds_de.append(t.callee)
        # no aggregate construction of a Tds outside the Tds visitor
        builds = [s for blk in b.blocks for s in blk.stmts
                  if s.kind == 'A' and s.rv.k == 'agg' and s.rv.raw.get('adt') == TDS]
        ok = bool(tds_de) and not builds
        ctx.ob('GATE', b.q + '|via-Tds', cfg, ok,
               'DelaunayTriangulation::deserialize %s the gated <Tds as Deserialize>::deserialize' % (
                   'goes through' if ok else 'does NOT go through'), site='%s:%d' % (b.file, b.line))
