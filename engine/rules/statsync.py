"""STATSYNC — the per-insertion statistics agree with the reported outcome.

`ConstructionStatistics::record_insertion` classifies an insertion only by `InsertionStatistics::result`
(default: `Inserted`), while the triangulation keeps or drops the vertex according to the
`InsertionOutcome`.  Wherever a body builds the pair `(InsertionOutcome::V {..}, stats)` itself, the last
value assigned to `stats.result` on every path to that statement must match V:
   V = Skipped  => SkippedDuplicate | SkippedDegeneracy   (never the default / Inserted)
   V = Inserted => Inserted or the untouched default.
Forward dataflow over the CFG (set of possible last-assigned variants per statistics local), evaluated per
build configuration: an assignment compiled only under debug_assertions is missing from the release fact base."""
from collections import deque

OUTCOME = 'core::operations::InsertionOutcome'
RESULT = 'core::operations::InsertionResult'
STATS = 'core::operations::InsertionStatistics'
INIT = '<default>'


def _agg_variant(b, local, adt):
    """variant name when every definition of `local` is an aggregate of `adt` with one variant"""
    vs = set()
    for (_, idx, node) in b.defs.get(local, []):
        if idx == 'term' or node.rv.k != 'agg' or node.rv.raw.get('ak') != 'adt' or node.rv.raw.get('adt') != adt:
            return None
        vs.add(node.rv.raw.get('variant'))
    return vs.pop() if len(vs) == 1 else None


def check(ctx, cfg, prog, rule, mod=None):
    n_sites = 0
    for q, b in sorted(prog.bodies.items()):
        if '::tests::' in q or not b.file.startswith('src/'):
            continue
        stats_locals = [i for i, t in enumerate(b.locals) if t == STATS and i > b.nargs]
        if not stats_locals:
            continue
        al = mod.aliases(q)
        # pair-building statements
        sites = []
        for blk in b.blocks:
            if blk.cleanup:
                continue
            for si, s in enumerate(blk.stmts):
                if s.kind != 'A' or s.rv.k != 'agg' or s.rv.raw.get('ak') != 'tuple' or len(s.rv.ops) != 2:
                    continue
                o0, o1 = s.rv.ops
                if o0.place is None or o1.place is None or not o0.place.is_local() or not o1.place.is_local():
                    continue
                if not b.locals[o0.place.local].startswith(OUTCOME) or b.locals[o1.place.local] != STATS:
                    continue
                v = _agg_variant(b, o0.place.local, OUTCOME)
                if v is None:
                    continue
                sites.append((blk.idx, si, v, o1.place.local, s.line))
        if not sites:
            continue
        # copies: `_86 = _9` (InsertionStatistics is Copy): map a temp to the statistics local it copies at that point
        def origin(local):
            seen = set()
            while local not in seen:
                seen.add(local)
                ds = b.defs.get(local, [])
                if len(ds) == 1 and ds[0][1] != 'term' and ds[0][2].rv.k == 'use' and ds[0][2].rv.ops and \
                        ds[0][2].rv.ops[0].place is not None and ds[0][2].rv.ops[0].place.is_local() and \
                        b.locals[ds[0][2].rv.ops[0].place.local] == STATS:
                    local = ds[0][2].rv.ops[0].place.local
                    continue
                break
            return local
        tracked = sorted({origin(l) for (_, _, _, l, _) in sites})
        # transfer per statement
        def step(state, s):
            if s.kind != 'A':
                return state
            pl = s.place
            if pl.local in state and not pl.is_local() and list(pl.proj) == ['.result']:
                v = None
                if s.rv.k == 'use' and s.rv.ops and s.rv.ops[0].place is not None and s.rv.ops[0].place.is_local():
                    v = _agg_variant(b, s.rv.ops[0].place.local, RESULT)
                elif s.rv.k == 'agg' and s.rv.raw.get('adt') == RESULT:
                    v = s.rv.raw.get('variant')
                state = dict(state)
                state[pl.local] = frozenset({v or '<unknown>'})
            elif pl.local in state and pl.is_local():
                state = dict(state)
                state[pl.local] = frozenset({INIT})
            return state
        start = {l: frozenset({INIT}) for l in tracked}
        state_in = {0: start}
        work = deque([0])
        at_site = {}
        while work:
            bb = work.popleft()
            st = state_in[bb]
            blk = b.blocks[bb]
            for si, s in enumerate(blk.stmts):
                for (sb, ssi, v, l, line) in sites:
                    if sb == bb and ssi == si:
                        at_site[(sb, ssi)] = at_site.get((sb, ssi), frozenset()) | st.get(origin(l), frozenset({INIT}))
                st = step(st, s)
            t = blk.term
            if t.k == 'call':
                # a callee that receives `&mut stats` may set the field itself: not judged from here on
                for o in t.args:
                    tt = al.operand_target(o) if o.place is not None else None
                    if tt is not None and tt[0] in st and tt[2]:
                        st = dict(st)
                        st[tt[0]] = frozenset({'<set by callee>'})
            if t.k == 'call' and t.dest is not None and t.dest.is_local() and t.dest.local in st:
                st = dict(st)
                st[t.dest.local] = frozenset({INIT})
            for nb in b.succs(bb):
                if b.blocks[nb].cleanup:
                    continue
                cur = state_in.get(nb)
                if cur is None:
                    state_in[nb] = dict(st)
                    work.append(nb)
                else:
                    merged = {l: cur[l] | st[l] for l in cur}
                    if merged != cur:
                        state_in[nb] = merged
                        if nb not in work:
                            work.append(nb)
        for (sb, ssi, v, l, line) in sites:
            got = at_site.get((sb, ssi))
            if got is None:
                continue        # unreachable
            n_sites += 1
            if v == 'Skipped':
                ok = all(x.startswith('Skipped') or x == '<set by callee>' for x in got)
            else:
                ok = all(x in ('Inserted', INIT, '<set by callee>') for x in got)
            ctx.ob(rule, 'STATSYNC|%s|%s' % (b.root or q, v), cfg, ok,
                   'pair (InsertionOutcome::%s, stats) built with stats.result in %s%s' % (
                       v, sorted(got), '' if ok else
                       ': the statistics classify this insertion differently from its outcome (record_insertion counts by '
                       'stats.result), so the reported inserted / skipped counts no longer equal what is present'),
                   site='%s:%d' % (b.file, line))
    ctx.floor('%s: (outcome, statistics) pairs built' % rule, 3, n_sites, cfg)


# ------------------------------------------------------------------------------------------ STATSRC
def _is_ctor_result(ty):
    return 'DelaunayTriangulation<' in ty and 'ConstructionStatistics' in ty


def _ctor_sites(b, al, local, seen_calls=None):
    """Call blocks in the backward slice of `local` whose result carries a triangulation together with construction
    statistics (Ok pair or error-with-statistics).  Calls that receive `&mut local` contribute their other arguments."""
    import valueflow
    sites = set()
    work = [local]
    done = set()
    while work:
        l = work.pop()
        if l in done:
            continue
        done.add(l)
        for leaf in valueflow.sources(b, al, l):
            if leaf[0] == 'call':
                t = leaf[1]
                if t.dest is not None and t.dest.is_local() and _is_ctor_result(b.locals[t.dest.local]):
                    sites.add(leaf[2])
        for (_, idx, node) in b.defs.get(l, []):      # the variable a temporary was moved out of
            if idx != 'term' and node.rv.k == 'use' and node.rv.ops and node.rv.ops[0].place is not None:
                work.append(node.rv.ops[0].place.local)
        # mutation through a pointer: f(&mut l, others..)
        for bb, t in b.calls():
            hit = False
            for o in t.args:
                tt = al.operand_target(o)
                if tt is not None and tt[0] == l and not tt[1] and tt[2]:
                    hit = True
            if hit:
                for o in t.args:
                    if o.place is not None:
                        tt = al.operand_target(o)
                        if tt is not None and tt[0] != l:
                            work.append(tt[0])
                        elif tt is None:
                            work.append(o.place.local)
    return sites


def check_src(ctx, cfg, prog, rule, mod):
    """The statistics returned next to a triangulation describe the pass that built *that* triangulation: in every
    `Ok((dt, stats))`, each construction call in the backward slice of `stats` (mutations through `&mut stats`
    included) is also in the slice of `dt`.  Statistics of an abandoned attempt (an `Err` carrying them) may be
    forwarded in an error, not added to a success."""
    n = 0
    for q, b in sorted(prog.bodies.items()):
        if '::tests::' in q or not b.file.startswith('src/'):
            continue
        rt = b.locals[0]
        if not (rt.startswith('std::result::Result<(') and _is_ctor_result(rt)):
            continue
        al = mod.aliases(q)
        for blk in b.blocks:
            if blk.cleanup:
                continue
            for s in blk.stmts:
                if not (s.kind == 'A' and s.place.is_local() and s.place.local == 0 and s.rv.k == 'agg' and
                        s.rv.raw.get('ak') == 'adt' and str(s.rv.raw.get('variant')) in ('Ok', '0') and s.rv.ops
                        and s.rv.ops[0].place is not None and s.rv.ops[0].place.is_local()):
                    continue
                tup = s.rv.ops[0].place.local
                parts = None
                for (_, idx, node) in b.defs.get(tup, []):
                    if idx != 'term' and node.rv.k == 'agg' and node.rv.raw.get('ak') == 'tuple' and len(node.rv.ops) == 2:
                        parts = node.rv.ops
                if parts is None or any(o.place is None or not o.place.is_local() for o in parts):
                    continue
                dt_l, st_l = parts[0].place.local, parts[1].place.local
                if 'DelaunayTriangulation<' not in b.locals[dt_l] or 'ConstructionStatistics' not in b.locals[st_l]:
                    continue
                n += 1
                s_sites = _ctor_sites(b, al, st_l)
                d_sites = _ctor_sites(b, al, dt_l)
                extra = sorted(s_sites - d_sites)
                ctx.ob(rule, '%s|Ok-pair' % (b.root or q), cfg, not extra,
                       'the statistics returned with the triangulation come from %s' % (
                           'the construction call(s) that produced it (%d) or from local bookkeeping' % len(d_sites) if not extra else
                           'construction call(s) at line(s) %s whose triangulation is NOT the one returned: counters of an abandoned '
                           'pass are added to the reported ones (inserted > vertices present)' % [b.blocks[x].term.line for x in extra]),
                       site='%s:%d' % (b.file, s.line))
    ctx.floor('%s: Ok((triangulation, statistics)) aggregates' % rule, 1, n, cfg)
