"""C07 — bistellar flips (structural clauses).

 GUARDS    in the flip kernel the first storage mutation (insertion of a new cell) is unreachable
           from entry without passing the "legal" edge of every legality guard: duplicate-cell,
           non-manifold-facet, inserted-simplex-already-exists (conditional on k), degenerate cell;
           and without passing the five arity / disjointness rejections;
 CONSTRUCT FlipContext / FlipContextDyn values are built only by the validated context builders;
 TXN       the 12 Edit-API flip methods and the flip kernel layers are clean on failure (C03 engine,
           restricted to these owners);
 EDITAPI   the DelaunayTriangulation flip that adds a vertex invalidates the insertion caches
           before delegating (shared with C09).
 HASHCANON the legality guards identify cells and facets by a hash of their vertex keys; the index
           builder and every lookup must hash the *same canonical sequence*: each slice handed to
           `stable_hash_u64_slice` in the flip code is ordered as u64 key values (it comes from
           `sorted_vertex_key_values`, or a sort of a `[u64]` buffer is part of how it is filled).
Not decided: manifold preservation, cell-count arithmetic, FlipInfo accuracy, invertibility."""
import flow
import gate
import pair
import txn
import c03
from tables import T

EXPLANATION = (
    "GUARDS: in apply_bistellar_flip_with_k the blocks that call Tds::insert_cell_with_mapping must be unreachable from "
    "entry once the passing edge (false / None) of each legality guard call is removed, and unreachable from the "
    "rejecting edge of each of them; the early InvalidFlipContext rejections must dominate the mutation as well. "
    "CONSTRUCT: every MIR aggregate of FlipContext / FlipContextDyn lies in one of the context builder functions or the "
    "derived Clone impl. TXN: the C03 rollback dataflow restricted to the flip owners. Manifold preservation is not decided.")

F = 'core::algorithms::flips::'
KERNEL = F + 'apply_bistellar_flip_with_k'
INSERT_CELL = T + 'insert_cell_with_mapping'
GUARDS_BOOL = [F + 'flip_would_duplicate_cell_any', F + 'flip_would_create_nonmanifold_facets_any']
GUARD_OPT = F + 'find_cell_containing_simplex'
CTX_ADTS = {F + 'FlipContext', F + 'FlipContextDyn'}
BUILDERS = {F + 'build_k2_flip_context', F + 'build_k3_flip_context', F + 'build_k2_flip_context_from_edge',
            F + 'build_k3_flip_context_from_triangle', F + 'build_k1_forward_context_from_cell', F + 'build_k1_inverse_context'}
FLIP_LAYER = {F + 'apply_bistellar_flip_k1', F + 'apply_bistellar_flip_k1_inverse', KERNEL}


def run(ctx):
    ctx.rule('GUARDS', 'legality guards and arity checks dominate the first storage mutation of the flip kernel')
    ctx.rule('CONSTRUCT', 'flip contexts are constructed only by the validated builders')
    ctx.rule('TXN', 'flip entry points and kernel layers are clean on failure')
    ctx.rule('HASHCANON', 'every simplex hash in the flip code is computed over the u64-sorted key sequence')
    ctx.rule('NEWORIENT', 'a new cell found negatively oriented is reordered before it is inserted')
    ctx.rule('DIMGATE', 'each flip context builder refuses dimensions below the size of its move')
    ctx.rule('NEWINC', 'the k=1 split clears the caller\'s incident_cell and gives the stored vertex one of the new cells')
    ctx.rule('INFOFIELDS', 'a flip result reports the faces and cells it was given: each FlipInfo field comes from the parameter of the same name only')
    ctx.rule('KARG', 'the run-time k of the dynamic flip entry is a function of the const dimension alone and siblings agree on it')
    ctx.rule('POSTFLIP', 'a flip layer reports success only behind neighbour wiring, removal of the old cells and the '
                         'coherent-orientation normalisation')
    for cfg in ctx.cfgs:
        prog = ctx.prog(cfg)
        mod = ctx.mod(cfg)
        _hashcanon(ctx, cfg, prog, mod)
        lv = gate.Leaves(prog)
        _postflip(ctx, cfg, prog, lv)
        _dimgate(ctx, cfg, prog)
        _karg(ctx, cfg, prog, ctx.mod(cfg))
        _newinc(ctx, cfg, prog, ctx.mod(cfg))
        _infofields(ctx, cfg, prog, ctx.mod(cfg))
        _newcellorient(ctx, cfg, prog, ctx.mod(cfg))
        kb = ctx.anchor(cfg, KERNEL)
        if kb is None:
            continue
        site = '%s:%d' % (kb.file, kb.line)
        muts = [bb for bb, t in kb.calls() if (t.resolved or t.callee) == INSERT_CELL]
        ctx.floor('cell insertions in the flip kernel', 1, len(muts), cfg)
        # bool guards: passing edge = false
        for g in GUARDS_BOOL:
            calls = [bb for bb, t in kb.calls() if (t.resolved or t.callee) == g]
            if not calls:
                ctx.ob('GUARDS', '%s|%s' % (KERNEL, g.rsplit('::', 1)[-1]), cfg, False,
                       'legality guard %s is no longer called by the flip kernel' % g, site=site)
                continue
            pass_edges, reject_edges = set(), set()
            for bb in calls:
                cf = flow.call_flow(kb, bb)
                pass_edges |= cf.err_edges
                reject_edges |= cf.ok_edges
            r1 = flow.reach_edges_cp(kb, [0], avoid_edges=pass_edges)
            r2 = flow.reach_edges_cp(kb, [d for (_, d) in reject_edges])
            behind = not any(m in r1 for m in muts)
            how = 'only behind'
            if not behind:
                # per-new-cell guard loop: an empty loop is the only bypass; require that the
                # loop containing the guard dominates every cell insertion
                import loops as _loops
                nl = _loops.natural_loops(kb)
                hdrs = [h for h, nodes in nl.items() if any(bb in nodes for bb in calls)]
                # an iteration that gets back to the header without the legal edge skips the guard
                skipping = False
                for h in hdrs:
                    nodes = nl[h]
                    seen_ = set()
                    work_ = [x for x in kb.succs(h) if x in nodes and (h, x) not in pass_edges]
                    while work_:
                        x = work_.pop()
                        if x == h:
                            skipping = True
                            break
                        if x in seen_:
                            continue
                        seen_.add(x)
                        for y in kb.succs(x):
                            if y in nodes and (x, y) not in pass_edges:
                                work_.append(y)
                if hdrs and not skipping and all(any(kb.dominates(h, m) for h in hdrs) for m in muts):
                    behind = True
                    how = 'after the per-cell guard loop (header dominates), so only behind'
            ok = bool(pass_edges) and behind and not any(m in r2 for m in muts)
            ctx.ob('GUARDS', '%s|%s' % (KERNEL, g.rsplit('::', 1)[-1]), cfg, ok,
                   'cell insertion %s the guard\'s legal edge; rejecting edge %s reach the insertion' % (
                       how if behind else 'reachable WITHOUT',
                       'cannot' if not any(m in r2 for m in muts) else 'CAN'), site=site)
        # conditional Option guard: Some edge must not reach the mutation; the call must exist
        calls = [bb for bb, t in kb.calls() if (t.resolved or t.callee) == GUARD_OPT]
        if not calls:
            # the guard may have been hoisted: then *every* caller of the kernel must pass its None edge before the call
            callers = sorted(prog.callers.get(KERNEL, ()))
            lacking = []
            for cq in callers:
                cb = prog.bodies.get(cq)
                if cb is None:
                    continue
                kcalls = [bb for bb, t in cb.calls() if (t.resolved or t.callee) == KERNEL]
                gcalls = [bb for bb, t in cb.calls() if (t.resolved or t.callee) == GUARD_OPT]
                none_e = set()
                for bb in gcalls:
                    none_e |= flow.call_flow(cb, bb).err_edges
                reach_c = flow.reach_edges_cp(cb, [0], avoid_edges=none_e)
                if not gcalls or any(k in reach_c for k in kcalls):
                    lacking.append(cq.rsplit('::', 1)[-1])
            ok = bool(callers) and not lacking
            ctx.ob('GUARDS', KERNEL + '|find_cell_containing_simplex', cfg, ok,
                   'the inserted-simplex-already-exists guard is not in the kernel; %s' % (
                       'every caller passes it before the kernel call' if ok else
                       'caller(s) %s reach the kernel without it: those moves can create a simplex that already exists' % lacking),
                   site=site)
        else:
            some_edges = set()
            none_edges = set()
            for bb in calls:
                cf = flow.call_flow(kb, bb)
                some_edges |= cf.ok_edges
                none_edges |= cf.err_edges
            r2 = flow.reach_edges_cp(kb, [d for (_, d) in some_edges])
            # every path from the guard call to the mutation goes through its None edge
            r3 = flow.reach_edges_cp(kb, [s for bb in calls for s in kb.succs(bb)], avoid_edges=none_edges)
            ok = bool(some_edges) and not any(m in r2 for m in muts) and not any(m in r3 for m in muts)
            ctx.ob('GUARDS', KERNEL + '|find_cell_containing_simplex', cfg, ok,
                   'existing-simplex (Some) edge %s reach the cell insertion' % ('cannot' if ok else 'CAN'), site=site)
        # degenerate-cell guard: an Err(DegenerateCell) exit exists and no mutation precedes it
        degen = [e for e in flow.exit_assignments(kb) if e['cls'] == 'err' and _inner_variant(kb, e) == 'DegenerateCell']
        back = kb.reach_back([e['bb'] for e in degen]) if degen else set()
        ok = bool(degen) and not any(m in back for m in muts)
        ctx.ob('GUARDS', KERNEL + '|degenerate-cell', cfg, ok,
               'DegenerateCell rejections: %d; cell insertion %s precede them' % (len(degen), 'does not' if ok else 'CAN'), site=site)
        # arity / disjointness rejections dominate the mutation
        invalid = [e for e in flow.exit_assignments(kb) if e['cls'] == 'err' and _inner_variant(kb, e) == 'InvalidFlipContext']
        ctx.floor('InvalidFlipContext rejections in the flip kernel', 5, len(invalid), cfg)
        bad = 0
        for e in invalid:
            # the switch that leads to this rejection must dominate every mutation
            preds = kb.reach_back([e['bb']])
            if any(m in preds for m in muts):
                bad += 1
        ctx.ob('GUARDS', KERNEL + '|arity-checks', cfg, bad == 0 and len(invalid) >= 5,
               '%d InvalidFlipContext rejections, %d of them reachable after a cell insertion' % (len(invalid), bad), site=site)
        # ---- CONSTRUCT
        sites = []
        for q, b in prog.bodies.items():
            for blk in b.blocks:
                if blk.cleanup:
                    continue
                for s in blk.stmts:
                    if s.kind == 'A' and s.rv.k == 'agg' and s.rv.raw.get('adt') in CTX_ADTS:
                        sites.append((b.root or q, s.rv.raw['adt'], s.line, b.file))
        for (root, adt, line, file) in sites:
            rb = prog.bodies.get(root)
            is_clone = rb is not None and (rb.impl_trait or '').endswith('Clone')
            ok = root in BUILDERS or is_clone
            ctx.ob('CONSTRUCT', '%s|%s' % (root, adt.rsplit('::', 1)[-1]), cfg, ok,
                   '%s constructed in %s' % (adt.rsplit('::', 1)[-1], root) + ('' if ok else
                   ': outside the validated context builders, so a flip can be applied to an unvalidated star'),
                   site='%s:%d' % (file, line))
        ctx.floor('flip context construction sites', 6, len(sites), cfg)
        for bq in BUILDERS:
            ctx.anchor(cfg, bq)
        # ---- TXN (restricted to flips)
        res = pair.Resources(prog, mod)
        allown = c03.owners(prog, res)
        oset = {q for q, _ in allown}
        own = [(q, i) for (q, i) in allown if 'BistellarFlips>::' in q or q in FLIP_LAYER]
        eng = txn.TxnEngine(prog, mod, res, infeasible=c03.INFEASIBLE, inverse_ok=c03.INVERSE)
        eng.assume_clean = set(oset)
        eng.solve()
        for (q, i) in own:
            b = prog.bodies[q]
            roots = []
            for _ in range(20):
                if not txn.dirty_fail(eng.summary[(q, i)]):
                    break
                r = eng.own_root(q, i, oset)
                if r is None or r['exit_block'] is None or r['exit_block'] in eng.cut_blocks.get(q, ()):
                    break
                roots.append(r)
                eng.cut_blocks.setdefault(q, set()).add(r['exit_block'])
                eng.summary[(q, i)] = eng.analyse(q, i)
            if not roots:
                ctx.ob('TXN', q, cfg, True, 'outcomes %s' % sorted(eng.summary[(q, i)]), site='%s:%d' % (b.file, b.line))
            for r in roots:
                key = '%s|%s' % (q, r['exit'])
                ctx.ob('TXN', key, cfg, False, 'failure exit `%s` reached with storage DIRTY (last dirtying event %s)' % (
                    r['exit'], r['source']), assumed=c03.ASSUMED.get(key), site='%s:%s' % (b.file, r['line']))
        ctx.floor('flip owners', 12, len(own), cfg)
        if cfg == ctx.cfgs[0]:
            for o in ctx.obligations[:8]:
                ctx.sample({'rule': o['rule'], 'key': o['key'], 'status': o['status'], 'detail': o['detail'][:160]})
    if ctx.tier == 'thorough':
        import c05
        c05._witness(ctx)
    return ctx.finish(EXPLANATION)


def _inner_variant(body, e):
    st = e.get('stmt')
    if st is None:
        return None
    for o in st.rv.ops:
        if o.place is None:
            continue
        for (bb, idx, node) in body.defs.get(o.place.local, []):
            if idx != 'term' and node.rv.k == 'agg' and node.rv.raw.get('ak') == 'adt':
                return node.rv.raw.get('variant')
    return None


HASHFN = 'core::util::hashing::stable_hash_u64_slice'
CANON = F + 'sorted_vertex_key_values'
SORTS = ('sort', 'sort_unstable')


POSTFLIP_LEAVES = ['core::algorithms::incremental_insertion::wire_cavity_neighbors', T + 'remove_cells_by_keys',
                   T + 'normalize_coherent_orientation']


def _postflip(ctx, cfg, prog, lv):
    """POSTFLIP: each new cell is made geometrically positive on its own; agreement with the cells around the
    cavity (which may be stored with the other sign after an earlier non-convex flip) is established only by the
    normalisation pass that follows, and adjacency only by the wiring.  Every Ok exit of each flip layer lies behind
    the success edge of each of them, for every k (must-pass-through, no condition)."""
    n = 0
    for q in sorted(FLIP_LAYER):
        b = prog.bodies.get(q)
        if b is None:
            continue
        n += 1
        site = '%s:%d' % (b.file, b.line)
        if q != KERNEL:
            # the k=1 layers wrap the kernel (vertex insertion / removal around it): they must still go through it
            bodies = [b] + [prog.bodies[c] for c in prog.children.get(q, []) if c in prog.bodies]
            via = sorted({(t.resolved or t.callee) for b_ in bodies for _, t in b_.calls()
                          if any(lv.covers(n_, {KERNEL}, 'any') for n_ in (t.resolved, t.callee) if n_)})
            ctx.ob('POSTFLIP', '%s|delegates' % q, cfg, bool(via),
                   'delegates the move to the flip kernel through %s' % [v.rsplit('::', 1)[-1] for v in via] if via else
                   'no call that reaches apply_bistellar_flip_with_k: the move is applied outside the checked kernel', site=site)
            continue
        for leaf in POSTFLIP_LEAVES:
            r = gate.must_pass(prog, lv, b, {leaf}, mode='any')
            detail = gate.describe(b, r)
            if not r['ok']:
                detail += ('; a flip can report success without %s: the structural level (neighbour symmetry / coherent '
                           'orientation / no stale cells) is not re-established for that move' % leaf.rsplit('::', 1)[-1])
            ctx.ob('POSTFLIP', '%s|%s' % (q, leaf.rsplit('::', 1)[-1]), cfg, r['ok'], detail, site=site)
    ctx.floor('flip layers', 3, n, cfg)


# minimal dimension of each builder's move: a forward k-move replaces k cells around a (D+1-k)-face by D+2-k cells
# around a (k-1)-face and needs k <= D (k = D+1 is the vertex removal, which has to delete the vertex as well and is
# only offered through apply_bistellar_flip_k1_inverse); the inverse builders start from the (k-1)-face and need
# D+2-k >= 2 cells in the *result* of their own forward reading, i.e. one dimension more
MIN_DIM = {
    F + 'build_k2_flip_context': 2,
    F + 'build_k3_flip_context': 3,
    F + 'build_k2_flip_context_from_edge': 3,
    F + 'build_k3_flip_context_from_triangle': 4,
}


K1FWD = 'core::algorithms::flips::apply_bistellar_flip_k1'
INSVERT = T + 'insert_vertex_with_mapping'


_INC_MEMO = {}


def _writes_incident(prog, name, depth):
    """A crate function that stores to a `.incident_cell` place itself, or calls one that does (a setter helper)."""
    key = (id(prog), name)
    if key in _INC_MEMO:
        return _INC_MEMO[key]
    _INC_MEMO[key] = False
    b = prog.bodies.get(name)
    if b is None:
        return False
    r = False
    for blk in b.blocks:
        for s_ in blk.stmts:
            if s_.kind == 'A' and not s_.place.is_local() and s_.place.proj and str(s_.place.proj[-1]).endswith('incident_cell'):
                r = True
    if not r and depth > 0:
        r = any(_writes_incident(prog, t.resolved or t.callee or '', depth - 1) for _, t in b.calls())
    _INC_MEMO[key] = r
    return r


INFO_FIELDS = ('removed_face_vertices', 'inserted_face_vertices', 'removed_cells')


def _infofields(ctx, cfg, prog, mod):
    """INFOFIELDS: "describes precisely the removed and created cells in its result" - the caller feeds
    `inserted_face_vertices` of a result to the inverse entry point.  Wherever a `FlipInfo` is built in a function that has
    parameters named like its fields, each of those fields' values comes from the parameter of the same name and from no
    sibling parameter (a `match direction` that swaps the two faces for inverse moves puts both parameters into both
    slices)."""
    import valueflow
    n = 0
    for q, b in sorted(prog.bodies.items()):
        if '::tests::' in q or not b.file.startswith('src/'):
            continue
        params = {b.names.get(i): i for i in range(1, b.nargs + 1) if b.names.get(i) in INFO_FIELDS}
        if not params:
            continue
        al = None
        for blk in b.blocks:
            if blk.cleanup:
                continue
            for s_ in blk.stmts:
                if s_.kind != 'A' or s_.rv.k != 'agg' or s_.rv.raw.get('adt') != 'core::algorithms::flips::FlipInfo':
                    continue
                al = al or mod.aliases(q)
                fields = s_.rv.raw.get('fields') or []
                for fname, op in zip(fields, s_.rv.ops):
                    if fname not in params or op.place is None:
                        continue
                    n += 1
                    roots = set()
                    for leaf in valueflow.sources(b, al, op.place.local):
                        if leaf[0] == 'param':
                            roots.add(leaf[1])
                        elif leaf[0] == 'place':
                            roots.add(leaf[1][0])
                    own = params[fname] in roots
                    foreign = sorted(nm for nm, i in params.items() if nm != fname and i in roots)
                    ok = own and not foreign
                    ctx.ob('INFOFIELDS', '%s|%s' % (b.root or q, fname), cfg, ok,
                           'FlipInfo.%s is built from the parameter of that name only' % fname if ok else
                           'FlipInfo.%s %s%s: the result of a successful flip does not describe the face / cells the move '
                           'removed and created' % (fname, 'does not come from the parameter of that name' if not own else 'also depends on',
                                                    '' if not foreign else ' ' + ', '.join(foreign)),
                           site='%s:%d' % (b.file, s_.line))
    ctx.floor('FlipInfo fields fed by same-named parameters', 2, n, cfg)


def _newinc(ctx, cfg, prog, mod):
    """NEWINC (after fix F26): the k=1 cell split stores a caller-supplied vertex.  (a) The `incident_cell` of the value
    handed to `insert_vertex_with_mapping` is overwritten first (the caller's copy may point into another triangulation);
    (b) on the success side of the kernel result the stored vertex receives an incident cell: the kernel only repairs
    pointers that referenced removed cells, and a vertex left with `None` makes later insertions report it isolated."""
    import c09
    b = ctx.anchor(cfg, K1FWD)
    if b is None:
        return
    al = mod.aliases(K1FWD)
    site = '%s:%d' % (b.file, b.line)
    ins = [(bb, t) for bb, t in b.calls() if (t.resolved or t.callee) == INSVERT]
    ctx.floor('insert_vertex_with_mapping calls in the k=1 split', 1, len(ins), cfg)
    for bb, t in ins:
        arg = t.args[1] if len(t.args) > 1 else None
        roots = set()
        if arg is not None and arg.place is not None:
            l = arg.place.local
            for _ in range(4):
                roots.add(l)
                d = b.single_def(l)
                if d is None or d[1] == 'term' or d[2].rv.k != 'use' or not d[2].rv.ops or d[2].rv.ops[0].place is None:
                    break
                l = d[2].rv.ops[0].place.local
        cleared = False
        for blk in b.blocks:
            if blk.cleanup:
                continue
            for s_ in blk.stmts:
                if s_.kind == 'A' and not s_.place.is_local() and s_.place.local in roots and s_.place.proj and \
                        str(s_.place.proj[-1]).endswith('incident_cell') and (blk.idx == bb or b.dominates(blk.idx, bb)):
                    cleared = True
        ctx.ob('NEWINC', K1FWD + '|caller-pointer-cleared', cfg, cleared,
               'the incident_cell of the vertex handed to insert_vertex_with_mapping is overwritten before the call' if cleared else
               'the vertex is stored with the incident_cell of the caller\'s copy: a copy from another triangulation (or from '
               'before a removal) leaves a dangling pointer after a successful flip', site=site)
    # (b) success side
    kern = [(bb, t) for bb, t in b.calls() if 'apply_bistellar_flip' in (t.resolved or t.callee or '') or
            'and_then' in (t.resolved or t.callee or '')]
    ok_edges = set()
    for bb, t in b.calls():
        if t.dest is not None and t.dest.is_local() and 'FlipInfo' in b.locals[t.dest.local] and \
                b.locals[t.dest.local].startswith('std::result::Result<'):
            ok_edges |= c09._variant_edges(b, t.dest.local, 0)
            # `match &result`: the discriminant is read through a reference
            for blk in b.blocks:
                for s_ in blk.stmts:
                    if s_.kind == 'A' and s_.place.is_local() and s_.rv.k == 'ref' and s_.rv.place is not None and \
                            s_.rv.place.is_local() and s_.rv.place.local == t.dest.local:
                        ok_edges |= c09._variant_edges(b, s_.place.local, 0)
    region = flow.reach_edges(b, [d for (_, d) in ok_edges]) if ok_edges else set()
    stores = []
    for blk in b.blocks:
        if blk.cleanup or blk.idx not in region:
            continue
        for s_ in blk.stmts:
            if s_.kind == 'A' and not s_.place.is_local() and s_.place.proj and str(s_.place.proj[-1]).endswith('incident_cell') \
                    and '*' in s_.place.proj:
                stores.append(s_.line)
        t = blk.term
        if t.k == 'call' and ((t.resolved or t.callee or '').endswith('assign_incident_cells') or
                              _writes_incident(prog, t.resolved or t.callee or '', 2)):
            stores.append(t.line)
    ctx.ob('NEWINC', K1FWD + '|inserted-pointer-set', cfg, bool(stores),
           'on the success side of the kernel result the stored vertex receives an incident cell (line %s)' % stores[:2] if stores else
           'a successful cell split leaves the inserted vertex without (or with the caller\'s) incident_cell: later insertions '
           'whose cavity does not touch it report an isolated vertex, a stale pointer fails Tds::is_valid', site=site)


DYN = 'core::algorithms::flips::apply_bistellar_flip_dynamic'
# std plumbing through which `D - 1` may travel (`D.checked_sub(1).ok_or(..)?`)
KARG_PLUMBING = ('checked_sub', 'saturating_sub', 'checked_add', 'saturating_add', 'wrapping_sub', 'ok_or', 'ok_or_else',
                 'Try>::branch', 'unwrap_or', 'FromResidual', '::min', '::max')


def _k_ops(b, local):
    """Arithmetic applied to the const dimension in the backward slice of `local`: {'sub', 'add', ..}."""
    seen, work, ops = set(), [local], set()
    while work:
        l = work.pop()
        if l in seen:
            continue
        seen.add(l)
        for (_, idx, node) in b.defs.get(l, []):
            if idx == 'term':
                nm = (node.resolved or node.callee or '').rsplit('::', 1)[-1]
                for key_ in ('sub', 'add', 'mul', 'div'):
                    if key_ in nm:
                        ops.add(key_)
                for o in node.args:
                    if o.place is not None:
                        work.append(o.place.local)
            else:
                rv = node.rv
                if rv.k in ('bin', 'checked_bin') or 'op' in rv.raw:
                    op = str(rv.raw.get('op', '')).lower()
                    for key_ in ('sub', 'add', 'mul', 'div'):
                        if op.startswith(key_):
                            ops.add(key_)
                for o in rv.ops:
                    if o.place is not None:
                        work.append(o.place.local)
                if rv.place is not None:
                    work.append(rv.place.local)
    return ops


def _karg(ctx, cfg, prog, mod):
    """KARG: the dynamic flip entry takes the number of removed cells as a run-time `k`; the kernel checks the context
    against it, so a wrong `k` turns every legal move of that kind into a refusal (or, where the sizes happen to agree,
    into a different move).  For a context built by a fixed builder, `k` is a function of the dimension alone: every
    non-test call site computes it from the const generic D and literals only, and the call sites that share a context
    builder agree on the expression (sibling cross-check between the Edit API and the repair loop)."""
    import valueflow
    groups = {}
    n = 0
    for q, b in sorted(prog.bodies.items()):
        if '::tests::' in q or not b.file.startswith('src/'):
            continue
        al = None
        for bb, t in b.calls():
            if (t.resolved or t.callee) != DYN or len(t.args) < 4:
                continue
            al = al or mod.aliases(q)
            n += 1
            k = t.args[2]
            hasD, lits, foreign = False, [], []
            ops_ = set()
            if k.kind == 'k':
                hasD = isinstance(k.const, dict) and k.const.get('v') == 'D'
                if not hasD:
                    lits.append(str(k.const.get('i', k.const.get('v'))))
            else:
                for leaf in valueflow.sources(b, al, k.place.local):
                    if leaf[0] == 'const':
                        txt = leaf[1]
                        if txt.strip() in ('const D', 'D'):
                            hasD = True
                        else:
                            m_ = txt.replace('const ', '').replace('_usize', '')
                            if m_.lstrip('-').isdigit():
                                lits.append(m_)
                    elif leaf[0] == 'call':
                        nm = leaf[1].resolved or leaf[1].callee or ''
                        if not any(p_ in nm for p_ in KARG_PLUMBING) and 'FlipError' not in nm:
                            foreign.append(nm.rsplit('::', 1)[-1])
                    elif leaf[0] in ('place', 'param'):
                        foreign.append('argument / receiver state')
                ops_ = _k_ops(b, k.place.local)
            builder = sorted({(l[1].resolved or l[1].callee).rsplit('::', 1)[-1]
                              for o in t.args[3:4] if o.place is not None
                              for l in valueflow.sources(b, al, o.place.local)
                              if l[0] == 'call' and 'build_k' in (l[1].resolved or l[1].callee or '')})
            form = ('D' if hasD else '-', tuple(sorted(ops_)), tuple(sorted(set(lits))))
            ok = hasD and not foreign
            ctx.ob('KARG', '%s|%s' % (b.root or q, '+'.join(builder) or 'context'), cfg, ok,
                   'k is computed from the const dimension%s only' % (' (%s %s)' % ('/'.join(form[1]), list(form[2])) if form[2] else '') if ok else
                   'k handed to the dynamic flip entry is not a function of the dimension alone (const D in its slice: %s; other '
                   'inputs: %s): for a context built by %s the number of removed cells is fixed by D' % (
                       hasD, sorted(set(foreign))[:4] or 'none', '+'.join(builder) or 'its builder'),
                   site='%s:%d' % (b.file, t.line))
            for bn in builder:
                groups.setdefault(bn, []).append((form, b.root or q, ok))
    for bn, lst in sorted(groups.items()):
        forms = {f for f, _, okk in lst if okk}
        if len(lst) > 1:
            ctx.ob('KARG', 'siblings|' + bn, cfg, len(forms) <= 1,
                   '%d call sites after %s agree on k = %s' % (len(lst), bn, sorted(forms)) if len(forms) <= 1 else
                   'call sites after %s disagree on k: %s' % (bn, sorted((f, w.rsplit('::', 1)[-1]) for f, w, _ in lst)))
    ctx.floor('non-test call sites of apply_bistellar_flip_dynamic', 3, n, cfg)


def _dimgate(ctx, cfg, prog):
    """DIMGATE: the generic kernel accepts any k <= D+1; for k = D+1 it collapses a vertex star without deleting the
    vertex.  Each builder therefore starts with a comparison of the const generic D against a literal that is at
    least the size of its move, whose failing edge returns Err and which dominates everything else."""
    n = 0
    for q, need in sorted(MIN_DIM.items()):
        b = prog.bodies.get(q)
        if b is None:
            ctx.ob('ANCHOR', 'missing|' + q, cfg, False, 'DIMGATE table names a function that no longer exists')
            continue
        n += 1
        uses = flow._collect_uses(b)
        best = None
        gate_edges = set()
        for blk in b.blocks:
            if blk.cleanup:
                continue
            for s_ in blk.stmts:
                if s_.kind != 'A' or s_.rv.k != 'bin' or len(s_.rv.ops) != 2 or not s_.place.is_local():
                    continue
                a_, b_ = s_.rv.ops
                op = s_.rv.raw.get('op')
                isD = lambda o: o.kind == 'k' and isinstance(o.const, dict) and o.const.get('v') == 'D'
                lit = lambda o: o.int_value() if o.kind == 'k' else None
                # normalise to "rejected when D < m"
                m = None
                if isD(a_) and lit(b_) is not None and op in ('Lt', 'Le'):
                    m = lit(b_) + (1 if op == 'Le' else 0)
                    pol = True           # comparison true => too small
                elif isD(b_) and lit(a_) is not None and op in ('Gt', 'Ge'):
                    m = lit(a_) + (1 if op == 'Ge' else 0)
                    pol = True
                elif isD(a_) and lit(b_) is not None and op in ('Ge', 'Gt'):
                    m = lit(b_) + (1 if op == 'Gt' else 0)
                    pol = False          # comparison true => large enough
                if m is None:
                    continue
                for (sbb, _, snode, how) in uses.get(s_.place.local, []):
                    if how != 'switch':
                        continue
                    listed = {v: tg for v, tg in snode.values}
                    false_t = listed.get(0)
                    true_t = snode.otherwise if 0 in listed else None
                    ok_t = false_t if pol else true_t
                    if ok_t is not None and (best is None or m > best):
                        best = m
                        gate_edges = {(sbb, ok_t)}
        site = '%s:%d' % (b.file, b.line)
        if best is None:
            ctx.ob('DIMGATE', q, cfg, False, 'no comparison of the const generic D with a literal found (minimum %d)' % need, site=site)
            continue
        # the accepting edge must dominate every call that reads the triangulation
        reach = flow.reach_edges(b, [0], avoid_edges=gate_edges)
        leaks = [t.line for bb, t in b.calls() if bb in reach and (t.resolved or t.callee or '') in prog.bodies]
        ok = best >= need and not leaks
        ctx.ob('DIMGATE', q, cfg, ok,
               'refuses D < %d (move needs D >= %d)%s' % (best, need, '' if ok else
               ': a %s in a smaller dimension reaches the generic kernel with k = D+1, which collapses a vertex star without '
               'deleting the vertex (isolated vertex, vertex set changed by a k >= 2 move)' % q.rsplit('::', 1)[-1]
               if best < need else '; crate calls at lines %s are reachable without passing the gate' % leaks[:3]),
               site=site)
    ctx.floor('flip context builders with a dimension gate', 4, n, cfg)


def _newcellorient(ctx, cfg, prog, mod):
    """NEWORIENT: the coherent-orientation pass after a flip keeps the *first stored cell* as its reference; when the
    flip removes that cell, a new cell becomes the reference, so each new cell must be positively ordered by itself.
    In the kernel: there is a comparison `sign < 0` on a value derived from the orientation predicate of the new
    cell, and from its negative edge the per-cell loop cannot continue (nor the function go on) without passing a
    `swap` of the cell's vertices."""
    import valueflow
    import loops
    b = prog.bodies.get(KERNEL)
    if b is None:
        return
    al = mod.aliases(KERNEL)
    site = '%s:%d' % (b.file, b.line)
    preds = [bb for bb, t in b.calls() if (t.callee or t.resolved or '').rsplit('::', 1)[-1] in ('orientation', 'robust_orientation')]
    swaps = {bb for bb, t in b.calls() if (t.callee or t.resolved or '').rsplit('::', 1)[-1] == 'swap'}
    uses = flow._collect_uses(b)
    neg_targets = []
    for blk in b.blocks:
        if blk.cleanup:
            continue
        for s_ in blk.stmts:
            if s_.kind != 'A' or s_.rv.k != 'bin' or s_.rv.raw.get('op') not in ('Lt', 'Gt', 'Le', 'Ge') or not s_.place.is_local():
                continue
            ops = s_.rv.ops
            zero = [o for o in ops if o.int_value() == 0]
            var = [o for o in ops if o.place is not None]
            if len(zero) != 1 or len(var) != 1:
                continue
            leaves = valueflow.sources(b, al, var[0].place.local)
            if not any(x[0] == 'call' and x[2] in preds for x in leaves):
                continue
            op = s_.rv.raw['op']
            var_first = ops[0].place is not None
            # edge on which the sign is negative
            neg_when_true = (op == 'Lt' and var_first) or (op == 'Gt' and not var_first)
            neg_when_false = (op == 'Ge' and var_first) or (op == 'Le' and not var_first)
            for (sbb, _, snode, how) in uses.get(s_.place.local, []):
                if how != 'switch':
                    continue
                listed = {v: tg for v, tg in snode.values}
                false_t = listed.get(0)
                true_t = snode.otherwise if 0 in listed else None
                tgt = true_t if neg_when_true else false_t if neg_when_false else None
                if tgt is not None:
                    neg_targets.append(tgt)
    if not preds:
        ctx.ob('NEWORIENT', KERNEL, cfg, False, 'the kernel no longer evaluates the orientation of the new cells', site=site)
        return
    if not neg_targets:
        ctx.ob('NEWORIENT', KERNEL, cfg, False,
               'no branch on a negative orientation sign of a new cell: a negatively ordered new cell is inserted as it is; when the '
               'flip removes the first stored cell it becomes the reference of the coherent-orientation pass and the whole '
               'triangulation turns negative (Level 3 fails after a legal, convex flip)', site=site)
        return
    # from the negative edge, everything but the swap is cut: nothing of the function may remain reachable
    inserts = [bb for bb, t in b.calls() if (t.resolved or t.callee) == INSERT_CELL]
    reach = flow.reach_edges(b, neg_targets, avoid_blocks=swaps)
    bad = [x for x in inserts if x in reach]
    ok = bool(swaps) and not bad
    ctx.ob('NEWORIENT', KERNEL, cfg, ok,
           'negative-orientation edges: %d; vertex swaps: %d; %s' % (len(neg_targets), len(swaps),
               'the cell insertion is reachable from a negative edge only through a swap' if ok else
               'the cell insertion is reachable from a negative edge without a swap of the new cell\'s vertices'), site=site)


def _hashcanon(ctx, cfg, prog, mod):
    import valueflow
    n = 0
    for q, b in sorted(prog.bodies.items()):
        if not q.startswith(F):
            continue
        al = None
        for bb, t in b.calls():
            name = t.resolved or t.callee or ''
            if not name.endswith('::stable_hash_u64_slice') or not t.args or t.args[0].place is None:
                continue
            al = al or mod.aliases(q)
            n += 1
            tt = al.operand_target(t.args[0])
            roots = [t.args[0].place.local] + ([tt[0]] if tt is not None else [])
            canon, u64sort, keysort = False, False, []
            all_leaves = []
            for rl in roots:
                leaves, _ = valueflow.content_sources(b, al, rl)
                all_leaves += leaves
            # a hashing helper that receives the slice as a parameter: judge the argument at its call sites
            params = {l[1] for l in all_leaves if l[0] == 'param'}
            if params and b.kind != 'closure':
                for cq in sorted(prog.callers.get(q, ())):
                    cb_ = prog.bodies.get(cq)
                    if cb_ is None:
                        continue
                    cal = mod.aliases(cq)
                    for cbb, ct in cb_.calls():
                        if (ct.resolved or ct.callee) != q:
                            continue
                        for pi in params:
                            if pi - 1 < len(ct.args) and ct.args[pi - 1].place is not None:
                                ctt = cal.operand_target(ct.args[pi - 1])
                                for rl2 in [ct.args[pi - 1].place.local] + ([ctt[0]] if ctt is not None else []):
                                    more, _ = valueflow.content_sources(cb_, cal, rl2)
                                    all_leaves += [(x[0], x[1], x[2] if len(x) > 2 else None, cq) if x[0] == 'call' else x for x in more]
            for _once in (0,):
                for l in all_leaves:
                    if l[0] != 'call':
                        continue
                    lb = prog.bodies[l[3]] if len(l) > 3 and l[3] in prog.bodies else b
                    cn = l[1].resolved or l[1].callee or ''
                    if cn == CANON:
                        canon = True
                    if cn.rsplit('::', 1)[-1] in SORTS or cn.rsplit('::', 1)[-1].startswith('sort_'):
                        st = (l[1].func.const.get('selfty') or '') if l[1].func is not None and l[1].func.kind == 'k' else ''
                        arg0 = lb.locals[l[1].args[0].place.local] if l[1].args and l[1].args[0].place is not None else ''
                        if 'u64' in (st + ' ' + arg0) and 'VertexKey' not in (st + ' ' + arg0):
                            u64sort = True
                        elif 'VertexKey' in (st + ' ' + arg0) and cn.rsplit('::', 1)[-1] in SORTS:
                            keysort.append(cn.rsplit('::', 1)[-1])
            ok = canon or u64sort
            ctx.ob('HASHCANON', '%s|%s' % (b.root or q, 'hash%d' % sum(1 for o in ctx.obligations if o['rule'] == 'HASHCANON' and o['cfg'] == cfg and o['key'].startswith('HASHCANON|%s|' % (b.root or q)))),
                   cfg, ok,
                   'hashed slice %s' % ('comes from sorted_vertex_key_values' if canon else 'is filled from a u64-sorted buffer' if u64sort else
                                        'is NOT in the canonical u64 order (no sorted_vertex_key_values / u64 sort in its content slice%s): '
                                        'the index builder and this site can disagree on the hash of the same simplex once slot-map '
                                        'versions differ (recycled vertex slot)' % ('; ordered by VertexKey::cmp instead' if keysort else '')),
                   site='%s:%d' % (b.file, t.line))
    ctx.floor('simplex hash computations in the flip code', 3, n, cfg)
