"""Run context shared by all property checks: fact bases, obligations, known findings,
evidence and replay files."""
import json
import os
import sys
import time

HERE = os.path.dirname(os.path.abspath(__file__))
VERIF = os.path.dirname(os.path.dirname(HERE))
sys.path.insert(0, os.path.join(VERIF, 'engine'))
sys.path.insert(0, HERE)

import factbase  # noqa: E402
import facts     # noqa: E402
import flow      # noqa: E402

KNOWN_FINDINGS = os.path.join(VERIF, 'known_findings.txt')

QUICK_CFGS = ['dev', 'release']
THOROUGH_CFGS = ['dev', 'release', 'dev-nodefault', 'release-nodefault']

_prog_cache = {}
_mod_cache = {}


def load_known():
    """known_findings.txt lines:
         finding: property=<id> key=<exact obligation key> :: <what fails>
         fixed: property=<id> <commit> <what failed>          (suppresses nothing)
    """
    known = {}
    if os.path.exists(KNOWN_FINDINGS):
        for line in open(KNOWN_FINDINGS):
            line = line.strip()
            if not line.startswith('finding:'):
                continue
            rest = line[len('finding:'):].strip()
            parts = rest.split(' :: ', 1)
            head = parts[0]
            what = parts[1] if len(parts) > 1 else ''
            pid = None
            key = None
            first = head.split(' ', 1)[0]
            if first.startswith('property='):
                pid = first[len('property='):]
            if ' key=' in head:
                key = head.split(' key=', 1)[1].strip()
            if pid and key:
                known[(pid, key)] = what
    return known


class Ctx:
    def __init__(self, prop_id, tier='quick'):
        self.prop = prop_id
        self.tier = tier
        self.t0 = time.time()
        self.cfgs = QUICK_CFGS if tier == 'quick' else THOROUGH_CFGS
        self.obligations = []   # dicts
        self.floors = []        # (name, expected, got, cfg)
        self.notes = []
        self.known = load_known()
        self.samples = []
        self.info = {}
        self.rules = []
        self.assumptions = [
            "rustc's MIR construction and trait-method resolution (Instance::try_resolve, post-analysis typing env) are faithful to the program that the stable 1.93 toolchain builds",
            "unwind (cleanup) paths are out of scope: panics are the subject of C19 only",
        ]

    # ---- fact bases
    def prog(self, cfg):
        if cfg not in _prog_cache:
            for attempt in range(3):
                path = factbase.facts(cfg, quiet=True)
                try:
                    _prog_cache[cfg] = facts.Program(path)
                    break
                except FileNotFoundError:      # pruned by a concurrent run between build and load: rebuild
                    if attempt == 2:
                        raise
        return _prog_cache[cfg]

    def mod(self, cfg):
        if cfg not in _mod_cache:
            _mod_cache[cfg] = flow.Mod(self.prog(cfg))
        return _mod_cache[cfg]

    # ---- recording
    def rule(self, rid, text):
        if rid not in [r[0] for r in self.rules]:
            self.rules.append((rid, text))

    def ob(self, rule, key, cfg, ok, detail, nontrivial=True, assumed=None, site=None):
        """Record one obligation. `key` never contains line numbers; `site` (file:line) is for
        reports only."""
        st = 'ok' if ok else 'violation'
        if not ok and assumed:
            st = 'assumed'
        full_key = '%s|%s' % (rule, key)
        if st == 'violation' and (self.prop, full_key) in self.known:
            st = 'known'
        self.obligations.append({
            'rule': rule, 'key': full_key, 'cfg': cfg, 'status': st, 'detail': detail,
            'nontrivial': bool(nontrivial), 'assumed_reason': assumed, 'site': site,
        })
        return ok

    def floor(self, name, expected, got, cfg):
        """Fail closed when a rule matches fewer instances than were confirmed by hand."""
        self.floors.append((name, expected, got, cfg))
        if got < expected:
            self.ob('ANCHOR', 'floor|' + name, cfg, False,
                    'rule instance count %d fell below the confirmed floor %d: an anchor the rule '
                    'depends on is gone or renamed (fail closed)' % (got, expected))
            return False
        return True

    def anchor(self, cfg, qname):
        b = self.prog(cfg).bodies.get(qname)
        if b is None:
            self.ob('ANCHOR', 'missing|' + qname, cfg, False,
                    'anchor function %s not found in the fact base (renamed or removed): fail closed' % qname)
        return b

    def note(self, text):
        if text not in self.notes:
            self.notes.append(text)

    def sample(self, obj):
        if len(self.samples) < 12:
            self.samples.append(obj)

    # ---- finish
    def finish(self, explanation, level='other'):
        wall = time.time() - self.t0
        viol = [o for o in self.obligations if o['status'] == 'violation']
        known = [o for o in self.obligations if o['status'] == 'known']
        assumed = [o for o in self.obligations if o['status'] == 'assumed']
        okc = [o for o in self.obligations if o['status'] == 'ok']
        distinct = {o['key'] for o in self.obligations if o['nontrivial']}
        ev_dir = os.environ.get('VERIF_EVIDENCE_DIR') or os.path.join(VERIF, 'evidence')
        os.makedirs(os.path.join(ev_dir, 'violations'), exist_ok=True)
        replay_paths = []
        seen_keys = set()
        n = 0
        for o in viol:
            if o['key'] in seen_keys:
                continue
            seen_keys.add(o['key'])
            n += 1
            rp = os.path.join(ev_dir, 'violations', '%s-%d.json' % (self.prop, n))
            same = [x for x in viol if x['key'] == o['key']]
            with open(rp, 'w') as f:
                json.dump({'property': self.prop, 'rule': o['rule'], 'key': o['key'],
                           'configurations': sorted({x['cfg'] for x in same}),
                           'site': o['site'], 'detail': o['detail'],
                           'how_to_read': 'static finding: the named construct in /repo violates the rule; '
                                          're-run ./check %s to reproduce' % self.prop}, f, indent=1)
            replay_paths.append(rp)
        seed = 0
        try:
            seed = int(os.environ.get('VERIF_SEED', '0'))
        except ValueError:
            seed = 0
        per_rule = {}
        for o in self.obligations:
            r = per_rule.setdefault(o['rule'], {'obligations': 0, 'ok': 0, 'violation': 0, 'known': 0, 'assumed': 0})
            r['obligations'] += 1
            r[o['status']] += 1
        sizes = {}
        for cfg in self.cfgs:
            if cfg in _prog_cache:
                p = _prog_cache[cfg]
                sizes[cfg] = {'bodies': len(p.bodies),
                              'blocks': sum(len(b.raw['blocks']) for b in p.bodies.values()),
                              'debug_assertions': p.meta.get('debug_assertions')}
        if not self.samples:
            for o in self.obligations[:6]:
                self.samples.append({'rule': o['rule'], 'key': o['key'], 'cfg': o['cfg'],
                                     'status': o['status'], 'detail': o['detail']})
        ev = {
            'property_id': self.prop,
            'tier': self.tier,
            'seed': seed,
            'level': level,
            'coverage': {
                'explanation': explanation,
                'technique': 'static analysis over rustc MIR (custom rustc_private fact extractor + rule engine)',
                'rules': [{'id': r, 'text': t} for r, t in self.rules],
                'obligations': len(self.obligations),
                'discharged': len(okc),
                'evaluations': len(self.obligations),
                'distinct_nontrivial': len(distinct),
                'rule': 'one evaluation = one rule instance (function, exit / call site / loop / field) in one build '
                        'configuration; distinct_nontrivial counts distinct instance keys (configuration removed) that '
                        'contain at least one mutation, gate, loop or site to decide (instances with nothing to decide are '
                        'excluded)',
                'samples': self.samples,
                'per_rule': per_rule,
                'configurations': self.cfgs,
                'fact_bases': sizes,
                'floors': [{'name': n_, 'confirmed_floor': e, 'matched': g, 'cfg': c} for n_, e, g, c in self.floors],
                'assumed_infeasible': [{'key': o['key'], 'cfg': o['cfg'], 'reason': o['assumed_reason']} for o in assumed],
                'known_findings_matched': sorted({o['key'] for o in known}),
                'notes': self.notes,
                'info': self.info,
                'exhaustive': True,
                'checker_cmd': './check %s --tier %s' % (self.prop, self.tier),
            },
            'assumptions': self.assumptions,
            'wall_s': round(wall, 2),
            'violations': len(seen_keys),
        }
        with open(os.path.join(ev_dir, self.prop + '.json'), 'w') as f:
            json.dump(ev, f, indent=1)
        # ---- console
        print('%s [%s] cfgs=%s obligations=%d ok=%d assumed=%d known=%d violations=%d (%.1fs)' % (
            self.prop, self.tier, ','.join(self.cfgs), len(self.obligations), len(okc), len(assumed),
            len(known), len(seen_keys), wall))
        for r, c in per_rule.items():
            print('  rule %-10s obligations=%d ok=%d assumed=%d known=%d violation=%d' % (
                r, c['obligations'], c['ok'], c['assumed'], c['known'], c['violation']))
        for kk in sorted({o['key'] for o in known}):
            print('KNOWN-FINDING: property=%s %s :: %s' % (self.prop, kk, self.known.get((self.prop, kk), '')))
        shown = set()
        for o in viol:
            if o['key'] in shown:
                continue
            shown.add(o['key'])
            print('  violation [%s] %s @ %s\n      %s' % (o['cfg'], o['key'], o['site'], o['detail']))
        for rp in replay_paths:
            print('VIOLATION property=%s replay=%s' % (self.prop, rp))
        return 1 if replay_paths else 0
