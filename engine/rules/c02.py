"""C02 — insertion never leaves the validity stack broken (structural clauses: the safety net).

 SAFETY   the transactional insert commits only behind the success edge of validate_after_insertion
          (bootstrap phase — no cells yet — excepted); the star-split fallback likewise;
 LINKS    validate_after_insertion / validate_required_topology_links pass the ridge-link and
          vertex-link checkers on the true edge of the topology-guarantee predicates, followed by
          the geometric orientation check;
 POSTREPAIR after a per-insertion Delaunay repair the orientation normalisation and check (and, for
          guarantees that require them, the local ridge-link check) are passed before Ok;
 CHECK    insert / insert_with_statistics report Inserted only behind the success edge of
          maybe_check_after_insertion, which validates the Delaunay level unless the policy says no.
Not decided: that the validators suffice, Pseudomanifold + ValidationPolicy::Never (no gate by
design), the "adds exactly one vertex" clause."""
import flow
import gate
import tables
from tables import TR, DTQ, T, MAN
from c05 import zero_count_edges

EXPLANATION = (
    "Must-pass-through (dominance on result-flow success edges) instances over the insertion path: SAFETY in "
    "try_insert_with_topology_safety_net and the star-split fallback (edges taken when number_of_cells() == 0 are cut: "
    "bootstrap), LINKS from the true edges of requires_ridge_links / requires_vertex_links_during_insertion, POSTREPAIR in "
    "maybe_repair_after_insertion from the success edge of the repair, CHECK in the insert closures and in "
    "maybe_check_after_insertion from the true edge of DelaunayCheckPolicy::should_check. Sufficiency of the validators is "
    "not decided.")

SAFETY_NET = TR + 'try_insert_with_topology_safety_net'
FALLBACK = TR + 'try_star_split_fallback_after_topology_failure'
VAI = TR + 'validate_after_insertion'
VRTL = TR + 'validate_required_topology_links'
MAYBE_REPAIR = DTQ + 'maybe_repair_after_insertion'
MAYBE_CHECK = DTQ + 'maybe_check_after_insertion'
NORMALIZE = TR + 'normalize_and_promote_positive_orientation'
ORIENT = TR + 'validate_geometric_cell_orientation'
RIDGE_LOCAL = MAN + 'validate_ridge_links_for_cells'
NCELLS = T + 'number_of_cells'
SHOULD_CHECK = 'core::delaunay_triangulation::DelaunayCheckPolicy::should_check'
F = 'core::algorithms::flips::'
REPAIRS = {F + 'repair_delaunay_with_flips_k2_k3', DTQ + 'run_flip_repair_fallbacks'}


def _mp(ctx, cfg, prog, lv, rule, q, leafset, key, starts=None, cut=(), mode='any', what=''):
    b = prog.bodies[q]
    r = gate.must_pass(prog, lv, b, set(leafset), mode=mode, starts=starts, extra_cut_edges=cut)
    ctx.ob(rule, key, cfg, r['ok'], (what + ': ' if what else '') + gate.describe(b, r), site='%s:%d' % (b.file, b.line))
    return r


def _empty_arg_edges(body, gate_names):
    """`if !cells.is_empty() && let Err(..) = check(&cells)`: the true edge of is_empty() on the very
    collection handed to the checker (nothing to check) is not a bypass."""
    edges = set()
    roots = set()
    for bb, t in body.calls():
        if (t.resolved or t.callee) in gate_names:
            for o in t.args:
                if o.place is not None:
                    roots |= _ref_roots(body, o.place.local)
    for bb, t in body.calls():
        if (t.callee or t.resolved or '').rsplit('::', 1)[-1] == 'is_empty' and t.args and t.args[0].place is not None:
            if _ref_roots(body, t.args[0].place.local) & roots:
                edges |= flow.call_flow(body, bb).ok_edges
    return edges


def _ref_roots(body, local, depth=0):
    out = {local}
    if depth > 6:
        return out
    for (bb, idx, node) in body.defs.get(local, []):
        if idx == 'term':
            # deref / as_slice style adapters
            if node.args and node.args[0].place is not None and \
                    (node.callee or '').rsplit('::', 1)[-1] in ('deref', 'as_slice', 'as_ref', 'borrow'):
                out |= _ref_roots(body, node.args[0].place.local, depth + 1)
            continue
        rv = node.rv
        src = rv.place if rv.k in ('ref', 'deref_copy') else (rv.ops[0].place if rv.k in ('use', 'cast') and rv.ops else None)
        if src is not None:
            out |= _ref_roots(body, src.local, depth + 1)
    return out


INSERT_OWNERS = ('core::delaunay_triangulation::DelaunayTriangulation::insert',
                 'core::delaunay_triangulation::DelaunayTriangulation::insert_with_statistics',
                 'core::triangulation::Triangulation::insert_transactional',
                 'core::triangulation::Triangulation::insert',
                 'core::triangulation::Triangulation::insert_with_statistics')


def _txn_insertion(ctx, cfg, prog, mod):
    """"whether it reports Inserted, Skipped or Err": an insertion that fails after the vertex was stored must be
    rolled back, otherwise the result is neither the bootstrap state nor a valid complex."""
    import pair
    import txn
    import c03
    res = pair.Resources(prog, mod)
    allown = c03.owners(prog, res)
    own = [(q, i) for (q, i) in allown if q in INSERT_OWNERS]
    oset = {q for q, _ in allown}
    eng = txn.TxnEngine(prog, mod, res, infeasible=c03.INFEASIBLE, inverse_ok=c03.INVERSE)
    eng.assume_clean = set(oset)
    eng.solve()
    for (q, i) in own:
        b = prog.bodies[q]
        roots = []
        for _ in range(20):
            if not txn.dirty_fail(eng.summary[(q, i)]):
                break
            r = eng.own_root(q, i, oset)
            if r is None or r['exit_block'] is None or r['exit_block'] in eng.cut_blocks.get(q, ()):
                break
            roots.append(r)
            eng.cut_blocks.setdefault(q, set()).add(r['exit_block'])
            eng.summary[(q, i)] = eng.analyse(q, i)
        if not roots:
            ctx.ob('TXN', q, cfg, True, 'outcomes %s' % sorted(eng.summary[(q, i)]), site='%s:%d' % (b.file, b.line))
        for r in roots:
            key = '%s|%s' % (q, r['exit'])
            ctx.ob('TXN', key, cfg, False, 'failure exit `%s` reached with storage DIRTY (last dirtying event %s): the vertex (or '
                   'partial cells) stay behind after Err / Skipped' % (r['exit'], r['source']), assumed=c03.ASSUMED.get(key),
                   site='%s:%s' % (b.file, r['line']))
    ctx.floor('insertion owners', 3, len(own), cfg)


def run(ctx):
    ctx.rule('SAFETY', 'commit only behind the success edge of validate_after_insertion (bootstrap excepted)')
    ctx.rule('LINKS', 'link checkers and orientation check passed on the true edge of the guarantee predicates')
    ctx.rule('POSTREPAIR', 'orientation normalisation + check (+ local ridge links) passed after a per-insertion repair')
    ctx.rule('CHECK', 'Inserted is reported only behind maybe_check_after_insertion; it validates unless the policy says no')
    ctx.rule('IDENT', 'a vertex re-created on the insertion path (perturbation retry, canonicalisation) keeps the caller\'s UUID and data')
    ctx.rule('TXN', 'a failed or skipped insertion leaves no partial state: the insertion owners are clean on failure (C03 dataflow)')
    import idkeep
    for cfg in ctx.cfgs:
        prog = ctx.prog(cfg)
        lv = gate.Leaves(prog)
        _txn_insertion(ctx, cfg, prog, ctx.mod(cfg))
        import c08
        II = 'core::algorithms::incremental_insertion::'
        c08._postorient(ctx, cfg, prog, lv, drivers={II + 'fill_cavity', II + 'extend_hull'},
                        leaves={TR + 'normalize_and_promote_positive_orientation', TR + 'validate_geometric_cell_orientation'},
                        rule='INSORIENT', what='a cell-creating insertion primitive (fill_cavity / extend_hull)',
                        scope=lambda q_, b_: q_.rsplit('::', 1)[-1].startswith('insert'))
        _keyremap(ctx, cfg, prog)
        _policykeep(ctx, cfg, prog, ctx.mod(cfg))
        _orientzero(ctx, cfg, prog)
        import verdict
        verdict.rule(ctx, cfg, prog)
        import twins
        ctx.rule('TWIN', 'insert and insert_with_statistics call the same functions (statistics bookkeeping aside)')
        twins.check(ctx, cfg, prog, 'TWIN', lambda q_: q_.rsplit('::', 1)[-1].startswith('insert'), 1)
        idkeep.check(ctx, cfg, prog, ctx.mod(cfg), 'IDENT',
                     lambda o: o.rsplit('::', 1)[-1] in ('insert_transactional', 'canonicalize_vertex_for_insertion'), 2)
        for q in (SAFETY_NET, FALLBACK, VAI, VRTL, MAYBE_REPAIR, MAYBE_CHECK, NORMALIZE, ORIENT, RIDGE_LOCAL):
            ctx.anchor(cfg, q)
        if any(q not in prog.bodies for q in (SAFETY_NET, FALLBACK, VAI, VRTL, MAYBE_REPAIR, MAYBE_CHECK)):
            continue
        # SAFETY
        b = prog.bodies[SAFETY_NET]
        _mp(ctx, cfg, prog, lv, 'SAFETY', SAFETY_NET, {VAI}, SAFETY_NET, cut=zero_count_edges(b, NCELLS))
        _mp(ctx, cfg, prog, lv, 'SAFETY', FALLBACK, {VAI}, FALLBACK, cut=zero_count_edges(prog.bodies[FALLBACK], NCELLS))
        # the safety net must be what the transactional insert calls
        tx = prog.bodies.get(TR + 'insert_transactional')
        if tx is not None:
            calls = [t for _, t in tx.calls() if (t.resolved or t.callee) == SAFETY_NET]
            direct = [t for _, t in tx.calls() if (t.resolved or t.callee) == TR + 'try_insert_impl']
            ctx.ob('SAFETY', TR + 'insert_transactional|via-safety-net', cfg, bool(calls) and not direct,
                   'insert_transactional inserts through the safety net (%d call(s)); direct try_insert_impl calls: %d' % (
                       len(calls), len(direct)), site='%s:%d' % (tx.file, tx.line))
        # LINKS
        for q in (VAI, VRTL):
            vb = prog.bodies[q]
            cut = zero_count_edges(vb, NCELLS)
            for pred, leaves_ in ((tables.PRED_RIDGE, tables.L3_RIDGE), (tables.PRED_VLINK_INS, tables.L3_VERTEX)):
                te = gate.predicate_edges(vb, {pred}, True)
                key = '%s|%s' % (q, pred.rsplit('::', 1)[-1])
                if not te:
                    ctx.ob('LINKS', key, cfg, False, 'predicate %s no longer consulted in %s' % (pred, q),
                           site='%s:%d' % (vb.file, vb.line))
                    continue
                starts = sorted({d for (_, d) in te})
                _mp(ctx, cfg, prog, lv, 'LINKS', q, leaves_, key + '|links', starts=starts, cut=cut,
                    what='from the true edge of ' + pred.rsplit('::', 1)[-1])
                _mp(ctx, cfg, prog, lv, 'LINKS', q, {ORIENT}, key + '|orientation', starts=starts, cut=cut,
                    what='orientation check after the link checks')
        # POSTREPAIR
        mb = prog.bodies[MAYBE_REPAIR]
        starts = set()
        for bb, t in mb.calls():
            if (t.resolved or t.callee) in REPAIRS:
                cf = flow.call_flow(mb, bb)
                starts |= {d for (_, d) in cf.ok_edges}
        if not starts:
            ctx.ob('POSTREPAIR', MAYBE_REPAIR + '|repair-calls', cfg, False, 'no checked repair call found',
                   site='%s:%d' % (mb.file, mb.line))
        else:
            st = sorted(starts)
            _mp(ctx, cfg, prog, lv, 'POSTREPAIR', MAYBE_REPAIR, {NORMALIZE}, MAYBE_REPAIR + '|normalize', starts=st)
            _mp(ctx, cfg, prog, lv, 'POSTREPAIR', MAYBE_REPAIR, {ORIENT}, MAYBE_REPAIR + '|orientation', starts=st)
            te = gate.predicate_edges(mb, {tables.PRED_RIDGE}, True)
            if te:
                _mp(ctx, cfg, prog, lv, 'POSTREPAIR', MAYBE_REPAIR, {RIDGE_LOCAL}, MAYBE_REPAIR + '|ridge-links',
                    starts=sorted({d for (_, d) in te}), cut=_empty_arg_edges(mb, {RIDGE_LOCAL}),
                    what='from the true edge of requires_ridge_links')
            else:
                ctx.ob('POSTREPAIR', MAYBE_REPAIR + '|ridge-links', cfg, False,
                       'requires_ridge_links is no longer consulted after the repair', site='%s:%d' % (mb.file, mb.line))
        # CHECK
        n = 0
        for q, cb in sorted(prog.bodies.items()):
            if cb.kind != 'closure' or cb.root not in (DTQ + 'insert', DTQ + 'insert_with_statistics'):
                continue
            rep = [bb for bb, t in cb.calls() if (t.resolved or t.callee) == MAYBE_REPAIR]
            if not rep:
                continue
            n += 1
            st = set()
            for bb in rep:
                st |= {d for (_, d) in flow.call_flow(cb, bb).ok_edges}
            _mp(ctx, cfg, prog, lv, 'CHECK', q, {MAYBE_CHECK}, cb.root + '|check-after-repair', starts=sorted(st),
                what='from the success edge of maybe_repair_after_insertion')
        ctx.floor('insert closures that repair then check', 2, n, cfg)
        kb = prog.bodies[MAYBE_CHECK]
        te = gate.predicate_edges(kb, {SHOULD_CHECK}, True)
        if not te:
            ctx.ob('CHECK', MAYBE_CHECK + '|policy', cfg, False, 'DelaunayCheckPolicy::should_check no longer consulted',
                   site='%s:%d' % (kb.file, kb.line))
        else:
            L4 = set(tables.L4_VERIFY)
            _mp(ctx, cfg, prog, lv, 'CHECK', MAYBE_CHECK, L4, MAYBE_CHECK + '|validates', starts=sorted({d for (_, d) in te}),
                what='from the true edge of should_check')
        if cfg == ctx.cfgs[0]:
            for o in ctx.obligations[:6]:
                ctx.sample({'rule': o['rule'], 'key': o['key'], 'status': o['status']})
    return ctx.finish(EXPLANATION)


KEYREMAP_CALL = 'core::delaunay_triangulation::DelaunayTriangulation::maybe_repair_after_insertion'


ECO = TR + 'evaluate_cell_orientation_for_context'


def _orientzero(ctx, cfg, prog):
    """ORIENTZERO: the positive-orientation promotion is one of the two orientation steps INSORIENT accepts after a
    cell-creating insertion, and for Pseudomanifold + OnSuspicion / Never without a flip repair it is the only thing that
    looks at the new cells' orientation.  It must refuse a flat cell: among the bodies it consists of (depth <= 3) there
    is, inside a loop over the cells, a test of the orientation sign - the i32 delivered by `evaluate_cell_orientation_for_context` - against 0 by
    equality whose equal edge reaches no success exit.  A pass that only collects `orientation < 0` commits zero-volume
    cells (a point exactly on a hull facet or edge)."""
    ctx.rule('ORIENTZERO', 'the orientation promotion refuses a cell whose orientation predicate is zero')
    root = prog.bodies.get(NORMALIZE)
    if root is None:
        ctx.ob('ANCHOR', 'missing|' + NORMALIZE, cfg, False, 'ORIENTZERO names a function that no longer exists')
        return
    seen, work = set(), [(NORMALIZE, 3)]
    while work:
        q, d = work.pop()
        if q in seen or q not in prog.bodies:
            continue
        seen.add(q)
        if d > 0:
            for _, t in prog.bodies[q].calls():
                n_ = t.resolved or t.callee or ''
                if n_.startswith(TR) or n_ in prog.children.get(q, []):
                    work.append((n_, d - 1))
            for c_ in prog.children.get(q, []):
                work.append((c_, d - 1))
    found = []
    users = 0
    for q in sorted(seen):
        b = prog.bodies[q]
        signs = set()
        for bb, t in b.calls():
            if (t.resolved or t.callee) == ECO and t.dest is not None and t.dest.is_local():
                users += 1
                # only an evaluation made for every cell (inside a loop over the cells): the global-sign canonicalisation
                # looks at one representative cell
                if bb in flow.reach_edges(b, b.succs(bb)):
                    signs.add(t.dest.local)
        if not signs:
            continue
        # i32 locals moved out of the Result (through `?`)
        changed = True
        while changed:
            changed = False
            for blk in b.blocks:
                for s_ in blk.stmts:
                    if s_.kind == 'A' and s_.place.is_local() and s_.place.local not in signs and s_.rv.k == 'use' and s_.rv.ops \
                            and s_.rv.ops[0].place is not None and s_.rv.ops[0].place.local in signs:
                        signs.add(s_.place.local)
                        changed = True
                t = blk.term
                if t.k == 'call' and t.dest is not None and t.dest.is_local() and t.dest.local not in signs and \
                        any(o.place is not None and o.place.local in signs for o in t.args) and \
                        any(k in (t.resolved or t.callee or '') for k in ('Try>::branch', 'FromResidual')):
                    signs.add(t.dest.local)
                    changed = True
        exits = {e['bb'] for e in gate.success_exit_blocks(b)}
        for blk in b.blocks:
            if blk.cleanup:
                continue
            for s_ in blk.stmts:
                if s_.kind != 'A' or s_.rv.k != 'bin' or s_.rv.raw.get('op') not in ('Eq', 'Ne') or not s_.place.is_local():
                    continue
                a_, b_ = s_.rv.ops
                isz = lambda o: o.kind == 'k' and o.int_value() == 0
                iss = lambda o: o.place is not None and o.place.is_local() and b.locals[o.place.local] == 'i32' and o.place.local in signs
                if not ((iss(a_) and isz(b_)) or (isz(a_) and iss(b_))):
                    continue
                t = blk.term
                if t.k != 'switch' or t.discr.place is None or t.discr.place.local != s_.place.local:
                    continue
                listed = {v: tg for v, tg in t.values}
                tgt_true = t.otherwise if 0 in listed else listed.get(1, t.otherwise)
                tgt_false = listed.get(0, t.otherwise)
                zero_edge = tgt_true if s_.rv.raw['op'] == 'Eq' else tgt_false
                if not (exits & flow.reach_edges(b, [zero_edge])):
                    found.append((q.rsplit('::', 1)[-1], s_.line))
            # `match orientation { 0 => Err, .. }`: a switch on the sign itself
            t = blk.term
            if t.k == 'switch' and t.discr.place is not None and t.discr.place.is_local() and t.discr.place.local in signs and \
                    b.locals[t.discr.place.local] == 'i32':
                listed = {v: tg for v, tg in t.values}
                if 0 in listed and not (exits & flow.reach_edges(b, [listed[0]])):
                    found.append((q.rsplit('::', 1)[-1], t.line))
    ctx.floor('orientation evaluations inside the promotion pass', 1, users, cfg)
    ctx.ob('ORIENTZERO', NORMALIZE, cfg, bool(found),
           'zero orientation is refused at %s' % found[:3] if found else
           'no body of the promotion pass (%d bodies, %d orientation evaluations) refuses a zero orientation: a flat new cell is '
           'committed when nothing else validates the orientation (Pseudomanifold, OnSuspicion / Never, no flip repair)' % (len(seen), users),
           site='%s:%d' % (root.file, root.line))


def _policykeep(ctx, cfg, prog, mod):
    """The clause "when the per-insertion Delaunay check is enabled a reported insertion leaves the Delaunay level
    certified" is about the policy the caller configured: an insertion whose post-insertion repair replaces the whole
    triangulation by a rebuilt candidate (`*self = candidate`, or the same field by field) must carry the caller's
    check / repair policies and the insertion counter over, or every later insertion runs under the defaults."""
    import side
    ctx.rule('POLICYKEEP', 'a rebuilt candidate that replaces the receiver carries the configured check / repair policies and '
                           'the insertion counter')
    keep, sites = side.keep_table(prog, mod)
    for owner, (ok, d) in sorted(keep.get('insertion_state', {}).items()):
        ctx.ob('POLICYKEEP', owner, cfg, ok, 'replacement of the receiver (or of its insertion_state) in %s: %s' % (
            owner.rsplit('::', 1)[-1], d))
    ctx.floor('receiver replacement sites', 1, len(sites), cfg)


def _keyremap(ctx, cfg, prog):
    """KEYREMAP: the post-insertion repair can fall back to the heuristic rebuild, which re-issues every VertexKey;
    `maybe_repair_after_insertion` therefore hands back the key looked up again by UUID.  Wherever a body calls it and
    then reports success, the VertexKey in the reported value (`Ok(key)`, or the `vertex_key` of the `Inserted`
    outcome) has that call in its backward slice - the key obtained before the repair may name a different vertex."""
    import valueflow
    ctx.rule('KEYREMAP', 'the key reported by insert is the one handed back by the post-insertion repair')
    mod = ctx.mod(cfg)
    n = 0
    for q, b in sorted(prog.bodies.items()):
        if '::tests::' in q or not b.file.startswith('src/'):
            continue
        calls = [bb for bb, t in b.calls() if (t.resolved or t.callee) == KEYREMAP_CALL]
        if not calls:
            continue
        al = mod.aliases(q)
        after = set()
        for cb in calls:
            after |= flow.reach_edges(b, [d for (_, d) in flow.call_flow(b, cb).ok_edges] or b.succs(cb))
        for e in flow.exit_assignments(b):
            if e['cls'] != 'ok' or e['bb'] not in after or e.get('stmt') is None:
                continue
            keys = set()
            work = [o.place.local for o in e['stmt'].rv.ops if o.place is not None]
            seen = set()
            while work:
                l = work.pop()
                if l in seen:
                    continue
                seen.add(l)
                ty = b.locals[l]
                if ty == 'core::triangulation_data_structure::VertexKey':
                    keys.add(l)
                    continue
                if 'VertexKey' not in ty and 'InsertionOutcome' not in ty:
                    continue
                for (_, didx, node) in b.defs.get(l, []):
                    if didx != 'term' and node.rv.k in ('agg', 'use'):
                        work += [o.place.local for o in node.rv.ops if o.place is not None]
            if not keys:
                continue
            n += 1
            bad = []
            for k in sorted(keys):
                leaves = valueflow.sources(b, al, k)
                if not any(x[0] == 'call' and (x[1].resolved or x[1].callee) == KEYREMAP_CALL for x in leaves):
                    bad.append(b.names.get(k, '_%d' % k))
            ctx.ob('KEYREMAP', '%s' % (b.root or q), cfg, not bad,
                   'success reported after maybe_repair_after_insertion: the reported VertexKey %s' % (
                       'is the one it returned' if not bad else
                       '(%s) does not come from its result: after a heuristic rebuild every key is re-issued and the key obtained '
                       'before the repair names a different vertex' % bad), site='%s:%d' % (b.file, e['stmt'].line))
    ctx.floor('success exits after the post-insertion repair that report a vertex key', 2, n, cfg)
