"""SIDE — the TXN rollback dataflow instantiated on the non-storage state that must roll back with
the Tds: DelaunayTriangulation.{insertion_state, spatial_index} and
Triangulation.{validation_policy, topology_guarantee, global_topology}.

Differences from the storage instance: every write at or below the tracked field is an M event; a
*copy* of the whole field (`let previous = self.topology_guarantee`, or the tuple built in
`flag.then(|| (tds.clone(), self.insertion_state, self.spatial_index.clone()))`) is a snapshot just
like a clone; callees listed as benign (idempotent cache fills) are not M events."""
import pair
import txn
from pair import TRI, DT


FIELDS = {
    'insertion_state': {DT: ('insertion_state',)},
    'spatial_index': {DT: ('spatial_index',)},
    'validation_policy': {DT: ('tri', 'validation_policy'), TRI: ('validation_policy',)},
    'topology_guarantee': {DT: ('tri', 'topology_guarantee'), TRI: ('topology_guarantee',)},
    'global_topology': {DT: ('tri', 'global_topology'), TRI: ('global_topology',)},
}
D_ = 'core::delaunay_triangulation::DelaunayTriangulation::'
# callees whose writes to the tracked field are not observable state changes
BENIGN = {
    D_ + 'ensure_spatial_index_seeded': 'fills the duplicate index from the current vertex set when it is absent: an idempotent '
                                        'function of state that is itself rolled back',
    D_ + 'invalidate_insertion_caches': 'drops the locate hint and the duplicate index; both are rebuilt lazily from the vertex set',
}
# fields for which a Skipped outcome passed through from a callee is not followed: the duplicate index is handed to the
# triangulation layer as `Option<&mut HashGridIndex>` (not a tracked pointer type), so its writes there cannot be
# correlated with the outcome; the index is written only on the Inserted path of insert_transactional (read), stale
# entries are re-resolved before use (C09 RESOLVE), and C09 PAIR-IDX pairs index updates with vertex additions
NO_SKIP_TRACKING = {'spatial_index'}
# sub-fields that are caches, not state (path below the tracked field)
CACHE_SUBFIELDS = {'insertion_state': {'last_inserted_cell': 'locate hint: performance only, validated before use, not serialised'}}


def engine_for(prog, mod, field, infeasible, keep):
    """SIDE engine for one tracked field; `keep` = keep_table(...)[0]."""
    res = pair.Resources(prog, mod, prefix_map=FIELDS[field])
    eng = SideEngine(prog, mod, res, infeasible=infeasible, benign=BENIGN)
    eng.replace_table = {o: d for o, (ok, d) in keep.get(field, {}).items() if ok}
    if field in NO_SKIP_TRACKING:
        eng.track_skip = False
    caches = CACHE_SUBFIELDS.get(field)
    if caches:
        eng.m_pred = lambda rel: not rel or rel[0] not in caches
    return res, eng


class SideEngine(txn.TxnEngine):

    def __init__(self, prog, mod, res, infeasible=None, benign=()):
        super().__init__(prog, mod, res, m_pred=lambda rel: True, infeasible=infeasible)
        self.benign = set(benign)

    def _reads_whole(self, al, place, r):
        if place is None:
            return False
        tp = self.R.tds_path(r)
        if tp is None:
            return False
        root, fields, derefd = al.norm(place)
        # the value behind the pointer / reference capture, not a copy of the reference itself
        return root == r['root'] and tuple(fields) == tuple(tp) and derefd

    def _copies_whole(self, al, s, r):
        """Statement s reads (copies) the whole tracked field: `x = self.f` or `(.., self.f, ..)`."""
        if s.kind != 'A' or s.rv.k not in ('use', 'agg'):
            return False
        for o in s.rv.ops:
            if o.kind == 'c' and o.place is not None and not o.place.is_local() and self._reads_whole(al, o.place, r):
                return True
        return False

    def stmt_events(self, q, r, body, al, s):
        if self._copies_whole(al, s, r):
            return [('snap', s.line)]
        return None

    def _closure_snapshots(self, cq, cidx):
        if super()._closure_snapshots(cq, cidx):
            return True
        cb = self.prog.bodies.get(cq)
        if cb is None:
            return False
        cr = self.R.res[cq][cidx]
        cal = self.mod.aliases(cq)
        for blk in cb.blocks:
            if blk.cleanup:
                continue
            for s in blk.stmts:
                if self._copies_whole(cal, s, cr):
                    return True
        return False

    def param_snapshot_ok(self, body, local, r):
        return True

    def _apply_t(self, q, b, st, e):
        if e[0] in ('call', 'call_nob') and e[1] in self.benign:
            return st
        return super()._apply_t(q, b, st, e)


# ------------------------------------------------------------------------------------------ KEEP
# Whole-receiver replacement (`*self = candidate`): the replacement is built from scratch, so every
# piece of state the caller configured must be copied into it.  Paths are relative to the
# DelaunayTriangulation.
KEEP_PATHS = {
    'global_topology': [('tri', 'global_topology')],
    'validation_policy': [('tri', 'validation_policy')],
    'topology_guarantee': [('tri', 'topology_guarantee')],
    'insertion_state': [('insertion_state', 'delaunay_repair_policy'),
                        ('insertion_state', 'delaunay_check_policy'),
                        ('insertion_state', 'delaunay_repair_insertion_count')],
}
GETTERS = {('tri', 'topology_guarantee'): 'core::triangulation::Triangulation::topology_guarantee'}


def _rel_of(body, root, fields):
    if root != 1:
        return None
    if body.kind == 'closure':
        if not fields or not fields[0].startswith('^'):
            return None
        name = fields[0][1:]
        for pre in ('_ref__', '_ref_mut__', '_move__'):
            if name.startswith(pre):
                name = name[len(pre):]
        parts = name.split('__')
        if parts[0] != 'self':
            return None
        return tuple(parts[1:]) + tuple(fields[1:])
    head, _ = pair.pointee_head(body.locals[1]) if body.nargs >= 1 else (None, False)
    if head != DT:
        return None
    return tuple(fields)


def _self_rel(body, al, place):
    """Path of `place` relative to the receiver (`self`) of the enclosing method, or None.  In a
    closure the receiver is reached through a capture named after the captured path."""
    if place is None:
        return None
    root, fields, derefd = al.norm(place)
    if not derefd:
        return None
    return _rel_of(body, root, fields)


def _target_rel(body, al, op):
    """Receiver-relative path of the place a pointer operand points to."""
    tt = al.operand_target(op)
    if tt is None:
        return None
    return _rel_of(body, tt[0], tt[1])


def _read_rel(body, al, op, hops=3):
    """Receiver-relative path an operand's value was read from (through plain temporaries)."""
    if op.place is None:
        return None
    rel = _self_rel(body, al, op.place)
    if rel is not None or not op.place.is_local() or hops == 0:
        return rel
    d = body.single_def(op.place.local)
    if d is None or d[1] == 'term':
        return None
    rv = d[2].rv
    if rv.k == 'use' and rv.ops:
        return _read_rel(body, al, rv.ops[0], hops - 1)
    return None


def _keep_prefixes():
    out = {()}
    for paths in KEEP_PATHS.values():
        for p in paths:
            for i in range(1, len(p) + 1):
                out.add(tuple(p[:i]))
    return out


def replacement_sites(prog, mod):
    """Statements that overwrite a whole DelaunayTriangulation receiver, or a whole sub-structure of it that
    encloses (or is) configured state, with the same part of another value (`*self = candidate`,
    `self.tri = candidate.tri`): (body q, stmt, block).  Stores whose source is not the same path of a
    local are ordinary writes and are left to the dataflow."""
    out = []
    prefixes = _keep_prefixes()
    for q, b in prog.bodies.items():
        if b.nargs < 1:
            continue
        al = None
        for blk in b.blocks:
            if blk.cleanup:
                continue
            for s in blk.stmts:
                if s.kind != 'A' or s.place.is_local():
                    continue
                al = al or mod.aliases(q)
                rel = _self_rel(b, al, s.place)
                if rel == ():
                    out.append((q, s, blk.idx))
                elif rel in prefixes and s.rv.k == 'use' and s.rv.ops and s.rv.ops[0].place is not None:
                    sp = _src_path(b, al, s.rv.ops[0])
                    if sp is not None and tuple(sp[1]) == rel and _is_dt_local(b, sp[0]):
                        out.append((q, s, blk.idx))
    return out


def _src_path(body, al, op, hops=3):
    """(local, fields) of the by-value place an operand's value was moved / copied out of, through temporaries."""
    if op.place is None:
        return None
    root, fields, derefd = al.norm(op.place)
    if derefd:
        return None
    if fields or hops == 0 or not op.place.is_local():
        return (root, tuple(fields))
    d = body.single_def(op.place.local)
    if d is not None and d[1] != 'term' and d[2].rv.k == 'use' and d[2].rv.ops:
        sub = _src_path(body, al, d[2].rv.ops[0], hops - 1)
        if sub is not None:
            return sub
    return (root, tuple(fields))


def _is_dt_local(body, local):
    ty = body.locals[local] if isinstance(local, int) and local < len(body.locals) else ''
    return ty.startswith(DT + '<') or ('::' + DT.rsplit('::', 1)[-1] + '<') in ty or 'DelaunayTriangulation<' in ty


def _builders(prog, mod, body, al, local, q=None, depth=2):
    """Crate-local callees, taking the receiver by reference, that the value of `local` comes from.  A
    value that is a by-value parameter of a helper method (`fn adopt(&mut self, candidate: Self)`) is
    followed to every call site of the helper; one call site without a builder voids the result."""
    import valueflow
    out = []
    pidx = _param_of(body, local)
    if pidx is not None and pidx >= 2 and q is not None and depth > 0 and body.kind != 'closure':
        sites = [(cq, blk.term) for cq in sorted(prog.callers.get(q, ())) for blk in prog.bodies[cq].blocks
                 if not blk.cleanup and blk.term.k == 'call' and q in (blk.term.resolved, blk.term.callee)]
        for cq, t in sites:
            cb = prog.bodies[cq]
            cal = mod.aliases(cq)
            if pidx - 1 >= len(t.args) or t.args[pidx - 1].place is None or _target_rel(cb, cal, t.args[0]) != ():
                return []
            sub = _builders(prog, mod, cb, cal, t.args[pidx - 1].place.local, cq, depth - 1)
            if not sub:
                return []
            out += sub
        return sorted(set(out))
    for leaf in valueflow.sources(body, al, local):
        if leaf[0] != 'call':
            continue
        t = leaf[1]
        name = t.resolved or t.callee
        if name not in prog.bodies or not t.args or t.args[0].place is None:
            continue
        tt = al.operand_target(t.args[0])
        if tt is None:
            continue
        if _target_rel(body, al, t.args[0]) == ():
            if 'DelaunayTriangulation<' in prog.bodies[name].locals[0]:
                out.append(name)
    return sorted(set(out))


def _param_of(body, local, hops=4):
    """Index of the by-value parameter that `local` is (through plain moves), or None."""
    while hops >= 0:
        if 1 <= local <= body.nargs:
            return local
        d = body.single_def(local)
        if d is None or d[1] == 'term' or d[2].rv.k != 'use' or not d[2].rv.ops or d[2].rv.ops[0].place is None \
                or not d[2].rv.ops[0].place.is_local():
            return None
        local = d[2].rv.ops[0].place.local
        hops -= 1
    return None


def _family(prog, q):
    out = [q]
    for c in prog.children.get(q, []):
        out += _family(prog, c)
    return out


def keeps(prog, mod, fq, path):
    """Does builder `fq` copy receiver state `path` into the value it returns?  Accepted forms, in
    the builder or one of its closures, dominating every Ok exit of that body:
      candidate.<path> = self.<path>            (assignment from the receiver's own field)
      Ctor(.., self.<getter>(), ..)             (constructor argument read from the receiver)"""
    import flow
    import valueflow
    for cq in _family(prog, fq):
        cb = prog.bodies.get(cq)
        if cb is None:
            continue
        al = mod.aliases(cq)
        blocks = []
        for blk in cb.blocks:
            if blk.cleanup:
                continue
            for s in blk.stmts:
                if s.kind != 'A' or s.place.is_local() or s.rv.k != 'use' or not s.rv.ops:
                    continue
                root, fields, derefd = al.norm(s.place)
                if derefd or tuple(fields) != tuple(path) or 1 <= root <= cb.nargs:
                    continue
                if _read_rel(cb, al, s.rv.ops[0]) == tuple(path):
                    blocks.append(blk.idx)
            t = blk.term
            getter = GETTERS.get(tuple(path))
            if t.k == 'call' and getter and 'DelaunayTriangulation<' in (cb.locals[t.dest.local] if t.dest is not None and t.dest.is_local() else ''):
                for o in t.args:
                    if o.place is None:
                        continue
                    for leaf in valueflow.sources(cb, al, o.place.local):
                        if leaf[0] == 'call' and (leaf[1].resolved or leaf[1].callee) == getter and leaf[1].args and \
                                _target_rel(cb, al, leaf[1].args[0]) == tuple(path[:-1]):
                            blocks.append(blk.idx)
        if not blocks:
            continue
        ok_exits = [e['bb'] for e in flow.exit_assignments(cb) if e['cls'] == 'ok']
        reach = flow.reach_edges(cb, [0], avoid_blocks=set(blocks))
        if ok_exits and not any(x in reach for x in ok_exits):
            return True, '%s copies it in %s (line %d) before every Ok exit' % (
                fq.rsplit('::', 1)[-1], cq.rsplit('::', 2)[-1] if cb.kind == 'closure' else 'its body', cb.blocks[blocks[0]].stmts[0].line if cb.blocks[blocks[0]].stmts else cb.line)
    return False, '%s does not copy self.%s into the value it returns on every Ok path' % (
        fq.rsplit('::', 1)[-1], '.'.join(path))


def keep_table(prog, mod):
    """{field name: {owner q: (ok, detail)}} for every whole-receiver replacement site."""
    out = {f: {} for f in KEEP_PATHS}
    sites = replacement_sites(prog, mod)
    for (q, s, bb) in sites:
        b = prog.bodies[q]
        owner = b.root or q
        al = mod.aliases(q)
        src = s.rv.ops[0].place if s.rv.k == 'use' and s.rv.ops else None
        sp = _src_path(b, al, s.rv.ops[0]) if src is not None else None
        builders = _builders(prog, mod, b, al, sp[0] if sp is not None else src.local, q) if src is not None else []
        rel = _self_rel(b, al, s.place) or ()
        for f, paths in KEEP_PATHS.items():
            paths = [p for p in paths if tuple(p[:len(rel)]) == tuple(rel)]
            if not paths:
                continue        # this store does not cover the field
            ok, details = True, []
            if not builders:
                ok, details = False, ['the replacement value does not come from a builder that takes the receiver']
            for fq in builders:
                for p in paths:
                    k, d = keeps(prog, mod, fq, p)
                    ok = ok and k
                    details.append(d)
            prev = out[f].get(owner)
            out[f][owner] = (ok and (prev[0] if prev else True), '; '.join(sorted(set(details))))
    return out, sites
