"""TXN — rollback-on-failure dataflow.

For every body that holds a triangulation resource the analysis computes the set of
(exit class, dirty) outcomes, exit class in {ok, fail} (fail = `Err`, `None`, or an `Ok` whose
payload is `InsertionOutcome::Skipped`), dirty = "storage may differ from its value at entry".
MUT events make the state dirty; a whole-place assignment from an entry snapshot (a clone of the
same storage taken while clean) makes it clean again.  The result of a call to a callee that is
clean on failure is correlated with the edge taken when the result is split (`?`, `match`,
`if let Err`), so `foo()?` on an err-clean `foo` leaves the caller clean on the early return."""
from collections import deque

import flow
import pair

SKIPPED = ('core::operations::InsertionOutcome', 'Skipped')


def short(name):
    """Last two path segments of a def path (`Cell::new`, `flips::apply_bistellar_flip`)."""
    name = name or '?'
    if name.startswith('<'):
        return name
    parts = name.split('::')
    return '::'.join(parts[-2:])


MAXTAGS = 4


def tag_add(tags, cb, cls):
    t = tuple(x for x in (tags or ()) if x[0] != cb) + ((cb, cls),)
    return t[-MAXTAGS:]


def tag_get(tags, cb):
    for x in (tags or ()):
        if x[0] == cb:
            return x[1]
    return None


FAILING = ('fail', 'skip')
OUTCOME_TY = 'core::operations::InsertionOutcome'


def dirty_fail(summ):
    """A failing outcome (Err / None, or Ok carrying InsertionOutcome::Skipped) with the resource dirty."""
    return any(m == 1 and cls in FAILING for (cls, m) in summ)


def edge_compatible(known, cls):
    """May a path on which call `cb` ended with outcome `known` take an edge labelled `cls`?
    Result / Option edges: 'ok' (Ok / Some - also taken by Ok(Skipped)) and 'fail'; variant edges of a switch on the
    InsertionOutcome the call returned: 'skip' (Skipped arm) and 'inserted' (any other arm)."""
    if cls == 'ok':
        return known in ('ok', 'skip')
    if cls == 'inserted':
        return known == 'ok'
    return known == cls


class TxnEngine(pair.PairEngine):

    def __init__(self, prog, mod, resources, m_pred=None, infeasible=None, inverse_ok=None):
        super().__init__(prog, mod, resources, m_pred=m_pred, snapshot_resets=True, infeasible=infeasible,
                         replace_is_m=True)
        self.meta = {}
        self.inverse_ok = inverse_ok or {}
        self.cut_blocks = {}   # q -> set of (exit) blocks removed from the CFG
        # owners: functions obliged to be clean on failure; a caller may rely on that contract,
        # so an owner's summary is read as fail => clean by everyone else (each owner's own
        # summary is still computed honestly and is what its obligation is judged on)
        self.assume_clean = set()
        # follow an InsertionOutcome returned by a callee through `match` arms and Ok(..) re-wrapping, so that a
        # passed-through Skipped counts as a failing exit (off: only a locally built Skipped does)
        self.track_skip = True

    # ---- per-body metadata
    def body_meta(self, q):
        if q in self.meta:
            return self.meta[q]
        body = self.prog.bodies[q]
        cflows = flow.all_call_flows(body)
        fwd = {}     # block -> call bbs whose result may be forwarded into _0 there
        for cb, cf in cflows.items():
            for fb in cf.forward_blocks:
                fwd[fb] = tuple(sorted(set(fwd.get(fb, ())) | {cb}))
        exits = {}   # block -> ex value
        rt = flow.type_kind(body.locals[0])
        for e in flow.exit_assignments(body):
            bb = e['bb']
            cls = e['cls']
            if cls == 'ok':
                if self._is_skipped(body, e.get('stmt')):
                    exits[bb] = 'skip'
                else:
                    pay = self._payload_calls(body, q, e.get('stmt')) if self.track_skip else ()
                    exits[bb] = ('okpay', pay) if pay else 'ok'
            elif cls in ('err', 'residual'):
                exits[bb] = 'fail'
            elif cls in ('forward', 'callret'):
                if bb in fwd:
                    exits[bb] = ('fwd', fwd[bb])
                elif cls == 'callret':
                    exits[bb] = ('fwd', (bb,))
                else:
                    exits[bb] = 'unknown' if rt in ('result', 'option') else 'ok'
            else:
                exits[bb] = 'unknown' if rt in ('result', 'option') else 'ok'
        # edges -> (call bb, 'ok' | 'fail')
        edge_cls = {}
        for cb, cf in cflows.items():
            for e_ in cf.ok_edges:
                edge_cls.setdefault(e_, []).append((cb, 'ok'))
            for e_ in cf.err_edges:
                edge_cls.setdefault(e_, []).append((cb, 'fail'))
        fwd_calls = {cb for cb, cf in cflows.items() if cf.forward_blocks}
        # class-preserving combinators (`r.map_err(f)`, `r.inspect_err(f)`, `r.map(f)`): the result is a failure exactly
        # when the receiver is; an exit that forwards such a call forwards the calls that produced the receiver
        import valueflow as _vf
        alias = {}
        for cb_ in cflows:
            t_ = body.blocks[cb_].term
            if t_.k != 'call' or (t_.callee or t_.resolved or '').rsplit('::', 1)[-1] not in ('map_err', 'inspect_err', 'map', 'inspect') \
                    or not t_.args or t_.args[0].place is None or (t_.resolved or t_.callee or '') in self.prog.bodies:
                continue
            org = []
            for leaf in _vf.sources(body, self.mod.aliases(q), t_.args[0].place.local):
                if leaf[0] == 'call' and (leaf[1].resolved or leaf[1].callee or '') in self.prog.bodies:
                    org.append(leaf[2])
            if org:
                alias[cb_] = tuple(sorted(set(org)))
        preserved = set()
        for bb_, ex_ in list(exits.items()):
            if isinstance(ex_, tuple) and ex_[0] == 'fwd' and any(c in alias for c in ex_[1]):
                new_cbs = []
                for c in ex_[1]:
                    new_cbs += list(alias.get(c, (c,)))
                exits[bb_] = ('fwd', tuple(sorted(set(new_cbs))))
                preserved |= set(new_cbs)
        # variant edges: `match outcome { Inserted {..} => .., Skipped {..} => .. }` on the InsertionOutcome a call returned
        skip_idx = None
        adt = self.prog.adts.get(OUTCOME_TY)
        if adt:
            for i_, v_ in enumerate(adt.get('variants', [])):
                if v_.get('name') == 'Skipped':
                    skip_idx = i_
        outcome_calls = set()
        if skip_idx is not None and self.track_skip:
            for blk in body.blocks:
                if blk.cleanup or blk.term.k != 'switch':
                    continue
                d = blk.term.discr
                if d.place is None or not d.place.is_local():
                    continue
                src = None
                for (dbb, didx, node) in body.defs.get(d.place.local, []):
                    if didx != 'term' and node.rv.k == 'discr' and node.rv.place is not None and \
                            body.locals[node.rv.place.local].startswith(OUTCOME_TY):
                        src = node.rv.place.local
                if src is None:
                    continue
                cbs = self._origin_calls(body, q, src)
                if not cbs:
                    continue
                outcome_calls |= set(cbs)
                targets = list(blk.term.values) + ([(None, blk.term.otherwise)] if blk.term.otherwise is not None else [])
                for (val, tg) in targets:
                    for cb in cbs:
                        edge_cls.setdefault((blk.idx, tg), []).append((cb, 'skip' if val == skip_idx else 'inserted'))
        for ex_ in exits.values():
            if isinstance(ex_, tuple) and ex_[0] == 'okpay':
                outcome_calls |= set(ex_[1])
        outcome_calls |= preserved
        m = {'exits': exits, 'edge_cls': edge_cls, 'rt': rt, 'fwd_calls': fwd_calls, 'outcome_calls': outcome_calls}
        self.meta[q] = m
        return m

    def _origin_calls(self, body, q, local):
        """Call blocks (in this body) whose returned value carries the InsertionOutcome held by `local`."""
        import valueflow
        al = self.mod.aliases(q)
        out = []
        for leaf in valueflow.sources(body, al, local):
            if leaf[0] != 'call':
                continue
            t, bb = leaf[1], leaf[2]
            if t.dest is None or not t.dest.is_local() or OUTCOME_TY not in body.locals[t.dest.local]:
                continue
            name = t.resolved or t.callee or ''
            if name in self.prog.bodies and body.blocks[bb].term is t:
                out.append(bb)
        return tuple(sorted(set(out)))

    def _payload_calls(self, body, q, stmt, depth=0):
        """Ok(payload) whose payload contains an InsertionOutcome that was returned by a call (not built here):
        the exit is a success or a skip according to what that call returned."""
        if stmt is None or depth > 4:
            return ()
        out = set()
        for o in stmt.rv.ops:
            if o.place is None:
                continue
            l = o.place.local
            if body.locals[l].startswith(OUTCOME_TY):
                built_here = all(didx != 'term' and node.rv.k == 'agg' for (_, didx, node) in body.defs.get(l, [])) \
                    and bool(body.defs.get(l))
                if not built_here:
                    out |= set(self._origin_calls(body, q, l))
                continue
            if OUTCOME_TY not in body.locals[l]:
                continue
            for (bb, idx, node) in body.defs.get(l, []):
                if idx == 'term':
                    continue
                if node.rv.k in ('agg', 'use'):
                    out |= set(self._payload_calls(body, q, node, depth + 1))
        return tuple(sorted(out))

    def _is_skipped(self, body, stmt, depth=0):
        """Ok(payload) where the payload (transitively) contains InsertionOutcome::Skipped{..}."""
        if stmt is None or depth > 4:
            return False
        for o in stmt.rv.ops:
            if o.place is None:
                continue
            for (bb, idx, node) in body.defs.get(o.place.local, []):
                if idx == 'term':
                    continue
                rv = node.rv
                if rv.k == 'agg' and rv.raw.get('ak') == 'adt' and (rv.raw['adt'], rv.raw['variant']) == SKIPPED:
                    return True
                if rv.k in ('agg', 'use') and self._is_skipped(body, node, depth + 1):
                    return True
        return False

    def _apply_inverse_table(self, q, ridx):
        """INVERSE table: {function: (inverse callee, undone callee, reason)} — in that function a
        call of the inverse callee on the resource undoes the earlier call of the undone callee
        (restore-by-inverse-operation, which the snapshot model does not see)."""
        ent = self.inverse_ok.get(q)
        if ent is None:
            return
        inv_callee = ent[0]
        body = self.prog.bodies[q]
        ev = self.trace[(q, ridx)]
        self.inverse_sites = getattr(self, 'inverse_sites', {})
        for bb, t in body.calls():
            if (t.resolved or t.callee) == inv_callee:
                ev[bb] = [('inverse', t.line)]
                self.inverse_sites.setdefault(q, set()).add(bb)

    # ---- transfer
    def _apply_t(self, q, b, st, e):
        k = e[0]
        if k == 'm':
            return {(1, sv, tag, ex) for (m, sv, tag, ex) in st}
        if k == 'snap':
            return {(m, sv & (1 if m == 0 else 0), tag, ex) for (m, sv, tag, ex) in st}
        if k == 'restore':
            return {((0 if sv else 1), sv, tag, ex) for (m, sv, tag, ex) in st}
        if k == 'inverse':
            return {(0, sv, tag, ex) for (m, sv, tag, ex) in st}
        if k == 'unsnap':
            return {(m, 0, tag, ex) for (m, sv, tag, ex) in st}
        if k == 'call_if_fail':
            # closure handed to an error-path combinator (`r.map_err(|e| { restore; e })`): it runs exactly when the
            # receiver is a failure; the receiver's outcome is known from the tags of the calls that produced it
            origins = e[4] if len(e) > 4 else ()
            out = set()
            for (m, sv, tag, ex) in st:
                known = None
                for (cb_, cls_) in reversed(tag or ()):
                    if cb_ in origins:
                        known = cls_
                        break
                if known in ('ok', 'skip'):
                    out.add((m, sv, tag, ex))
                    continue
                ran = {(m2, sv, tag, ex) for (_c, m2) in self.analyse(e[1], e[2], entry_m=m, entry_sv=sv)}
                out |= ran
                if known is None:
                    out.add((m, sv, tag, ex))
            return out
        if k in ('call', 'call_nob') and self.prog.bodies[e[1]].kind == 'closure' and self.closure_restores(e[1], e[2]) and \
                not (self.prog.bodies[q].blocks[b].term.k == 'call' and
                     (self.prog.bodies[q].blocks[b].term.resolved or self.prog.bodies[q].blocks[b].term.callee) == e[1]):
            # a closure (not called directly here) that restores from a captured snapshot: run it on the caller's state
            return {(m2, sv, tag, ex) for (m, sv, tag, ex) in st
                    for (_c, m2) in self.analyse(e[1], e[2], entry_m=m, entry_sv=sv)}
        if k in ('call', 'call_nob'):
            callee, cidx = e[1], e[2]
            summ = self.summary.get((callee, cidx), frozenset())
            if callee in self.assume_clean and callee != q:
                summ = frozenset((cls, 0 if cls in FAILING else cm) for (cls, cm) in summ)
            cb = self.prog.bodies[callee]
            direct = self.prog.bodies[q].blocks[b].term.k == 'call' and \
                (self.prog.bodies[q].blocks[b].term.resolved or self.prog.bodies[q].blocks[b].term.callee) == callee
            if not direct or (cb.kind == 'closure' and b not in self.body_meta(q)['outcome_calls']):
                cms = {cm for (_, cm) in summ}
                return {(m | cm, sv, tag, ex) for (m, sv, tag, ex) in st for cm in cms}
            t = self.prog.bodies[q].blocks[b].term
            to_ret = t.dest is not None and t.dest.is_local() and t.dest.local == 0
            # the outcome of this call is worth remembering only if it matters later: its
            # dirtiness differs between success and failure, or its result may become ours
            ms = {cm for (_, cm) in summ}
            worth = to_ret or len(ms) > 1 or b in self.body_meta(q)['fwd_calls'] or b in self.body_meta(q)['outcome_calls']
            out = set()
            for (m, sv, tag, ex) in st:
                for (cls, cm) in summ:
                    ntag = tag_add(tag, b, cls) if worth else tag
                    out.add((m | cm, sv, ntag, ('fwd', (b,)) if to_ret else ex))
            return out
        return st

    def analyse(self, q, ridx, entry_m=0, entry_sv=1):
        body = self.prog.bodies[q]
        if (q, ridx) not in self.trace:
            self.trace[(q, ridx)] = self._events(q, ridx)
            self._apply_inverse_table(q, ridx)
        ev = self.trace[(q, ridx)]
        meta = self.body_meta(q)
        exits, edge_cls = meta['exits'], meta['edge_cls']
        cut = self.cut_edges(q)
        start = (entry_m, entry_sv, None, None)
        state_in = {0: {start}}
        work = deque([0])
        out = set()
        while work:
            b = work.popleft()
            st = set(state_in[b])
            evs = ev.get(b, [])
            term_is_call = body.blocks[b].term.k == 'call'
            # statement events, then the _0 statement assignment, then the terminator call event
            n_evs = len(evs)
            for i, e in enumerate(evs):
                last_call = term_is_call and i == n_evs - 1 and e[0] in ('call', 'call_nob') and \
                    self.prog.bodies[e[1]].kind != 'closure'
                if last_call and b in exits and not (isinstance(exits[b], tuple) and exits[b][0] == 'fwd'):
                    st = {(m, sv, tag, exits[b]) for (m, sv, tag, ex) in st}
                st = self._apply_t(q, b, st, e)
            if b in exits:
                ex_b = exits[b]
                if isinstance(ex_b, tuple) and ex_b[0] == 'fwd' and ex_b[1] == (b,):
                    # `_0 = call(..)`: a callee without a resource summary leaves no tag
                    st = {(m, sv, tag, ex if (isinstance(ex, tuple) and ex[0] == 'fwd' and ex[1] == (b,)) else ex_b) for (m, sv, tag, ex) in st}
                else:
                    st = {(m, sv, tag, ex_b) for (m, sv, tag, ex) in st}
            if body.blocks[b].term.k == 'ret':
                for (m, sv, tag, ex) in st:
                    for cls in self._exit_classes(meta, tag, ex):
                        out.add((cls, m))
            cb_ = self.cut_blocks.get(q, ())
            for s in body.succs(b):
                if (b, s) in cut or s in cb_:
                    continue
                st2 = st
                ecs = edge_cls.get((b, s))
                if ecs:
                    nst = set()
                    for (m, sv, tag, ex) in st:
                        keep = True
                        ntag = tag
                        for (cb, cls) in ecs:
                            known = tag_get(tag, cb)
                            if known is not None and not edge_compatible(known, cls):
                                keep = False
                            elif known is None and (cb in meta['fwd_calls'] or cls in ('skip', 'inserted')):
                                ntag = tag_add(ntag, cb, 'ok' if cls == 'inserted' else cls)
                        if keep:
                            nst.add((m, sv, ntag, ex))
                    st2 = nst
                cur = state_in.setdefault(s, set())
                if not st2 <= cur:
                    cur |= st2
                    if s not in work:
                        work.append(s)
        if entry_m == 0 and entry_sv == 1:
            self.block_in[(q, ridx)] = state_in
        return frozenset(out)

    @staticmethod
    def _exit_classes(meta, tag, ex):
        if ex == 'ok':
            return ('ok',)
        if ex == 'fail':
            return ('fail',)
        if ex == 'skip':
            return ('skip',)
        if isinstance(ex, tuple) and ex[0] == 'okpay':
            for (cb, cls) in reversed(tag or ()):
                if cb in ex[1]:
                    return ('skip',) if cls == 'skip' else ('ok',)
            return ('ok',)
        if isinstance(ex, tuple):
            # most recent of the candidate calls whose outcome is known on this path
            for (cb, cls) in reversed(tag or ()):
                if cb in ex[1]:
                    return (cls,)
            return ('ok', 'fail')
        if ex == 'unknown':
            return ('ok', 'fail')
        # no assignment seen (unit / scalar returning functions)
        return ('ok',) if meta['rt'] not in ('result', 'option') else ('ok', 'fail')

    def solve(self):
        keys = [(q, i) for q, rs in self.R.res.items() for i in range(len(rs))]
        for k in keys:
            self.summary[k] = frozenset()
        changed = True
        rounds = 0
        while changed and rounds < 40:
            changed = False
            rounds += 1
            for k in keys:
                new = self.analyse(*k)
                if not new <= self.summary[k]:
                    self.summary[k] = new | self.summary[k]
                    changed = True
        self.rounds = rounds

    # ---- reporting
    def dirty_fail_witness(self, q, ridx):
        """Block path from entry to a return that is a failure exit with dirty storage."""
        body = self.prog.bodies[q]
        ev = self.trace[(q, ridx)]
        meta = self.body_meta(q)
        exits, edge_cls = meta['exits'], meta['edge_cls']
        cut = self.cut_edges(q)
        start = (0, (0, 1, None, None))
        prev = {start: None}
        dq = deque([start])
        goal = None
        while dq and goal is None:
            node = dq.popleft()
            b, s = node
            st = {s}
            evs = ev.get(b, [])
            for e in evs:
                st = self._apply_t(q, b, st, e)
            if b in exits:
                ex_b = exits[b]
                if isinstance(ex_b, tuple) and ex_b[0] == 'fwd' and ex_b[1] == (b,):
                    st = {(m, sv, tag, ex if (isinstance(ex, tuple) and ex[0] == 'fwd' and ex[1] == (b,)) else ex_b) for (m, sv, tag, ex) in st}
                else:
                    st = {(m, sv, tag, ex_b) for (m, sv, tag, ex) in st}
            for s2 in st:
                if body.blocks[b].term.k == 'ret':
                    if s2[0] == 1 and set(FAILING) & set(self._exit_classes(meta, s2[2], s2[3])):
                        goal = (node, s2)
                        break
                for nb in body.succs(b):
                    if (b, nb) in cut or nb in self.cut_blocks.get(q, ()):
                        continue
                    s3 = s2
                    ecs = edge_cls.get((b, nb))
                    if ecs:
                        keep = True
                        m, sv, tag, ex = s2
                        ntag = tag
                        for (cb, cls) in ecs:
                            known = tag_get(tag, cb)
                            if known is not None and not edge_compatible(known, cls):
                                keep = False
                            elif known is None and (cb in meta['fwd_calls'] or cls in ('skip', 'inserted')):
                                ntag = tag_add(ntag, cb, 'ok' if cls == 'inserted' else cls)
                        if not keep:
                            continue
                        s3 = (m, sv, ntag, ex)
                    nn = (nb, s3)
                    if nn not in prev:
                        prev[nn] = node
                        dq.append(nn)
        if goal is None:
            return None
        node, final = goal
        path = []
        n = node
        while n is not None:
            path.append(n)
            n = prev[n]
        path.reverse()
        events = []
        for b, s in path:
            for e in ev.get(b, []):
                events.append({'bb': b, 'event': e[0], 'what': list(e[1:])})
        exit_bb = None
        for b, s in reversed(path):
            if b in exits:
                exit_bb = b
                break
        return {'blocks': [b for b, _ in path], 'events': events, 'exit_block': exit_bb, 'final': final}

    def own_root(self, q, ridx, owners):
        """One dirty failure exit of q itself.  Returns None when q is clean on failure, else a dict
        {exit_block, exit, source, derived_from}: `derived_from` names a callee in `owners` whose
        own dirty failure q merely propagates (then q is not the root cause)."""
        w = self.dirty_fail_witness(q, ridx)
        if not w:
            return None
        body = self.prog.bodies[q]
        last_dirty = None
        for e in w['events']:
            if e['event'] == 'm':
                last_dirty = e
            elif e['event'] in ('call', 'call_nob'):
                cq, ci = e['what'][0], e['what'][1]
                if any(cm for (_, cm) in self.summary.get((cq, ci), ())):
                    last_dirty = e
            elif e['event'] in ('restore', 'inverse'):
                last_dirty = None
        exit_desc = self._exit_desc(body, w)
        res = {'exit_block': w.get('exit_block'), 'exit': exit_desc, 'source': 'unknown', 'derived_from': None,
               'line': None, 'blocks': w['blocks']}
        eb = w.get('exit_block')
        if eb is not None:
            res['line'] = body.blocks[eb].term.line
        if last_dirty is None:
            return res
        if last_dirty['event'] == 'm':
            res['source'] = 'write %s (line %s)' % (last_dirty['what'][-1], last_dirty['what'][0])
            return res
        cq, ci = last_dirty['what'][0], last_dirty['what'][1]
        res['source'] = 'call %s (line %s)' % (short(cq), last_dirty['what'][-1])
        # propagated dirty failure of an owner callee (anywhere on the path)?
        for e in w['events']:
            if e['event'] in ('call', 'call_nob'):
                oq, oi = e['what'][0], e['what'][1]
                if oq in owners and oq != q and dirty_fail(self.summary.get((oq, oi), ())) and \
                        self._propagates(body, w, oq):
                    res['derived_from'] = oq
        return res

    def _propagates(self, body, w, callee):
        """Does the witness path take the failure edge of a call to `callee` and return?"""
        blocks = w['blocks']
        cflows = flow.all_call_flows(body)
        for i, b in enumerate(blocks[:-1]):
            for cb, cf in cflows.items():
                t = body.blocks[cb].term
                if (t.resolved or t.callee) != callee:
                    continue
                if (b, blocks[i + 1]) in cf.err_edges:
                    return True
        return False

    def _exit_desc(self, body, w):
        eb = w.get('exit_block')
        if eb is None:
            return 'return'
        blk = body.blocks[eb]
        # describe by constructor / propagated callee, never by line
        for s in blk.stmts:
            if s.kind == 'A' and s.place.is_local() and s.place.local == 0:
                if s.rv.k == 'agg':
                    inner = ''
                    for o in s.rv.ops:
                        if o.place is not None:
                            d = body.single_def(o.place.local)
                            if d is not None and d[1] != 'term' and d[2].rv.k == 'agg' and d[2].rv.raw.get('ak') == 'adt':
                                inner = '(%s::%s)' % (d[2].rv.raw['adt'].rsplit('::', 1)[-1], d[2].rv.raw['variant'])
                    return '%s%s' % (s.rv.raw.get('variant'), inner)
                if s.rv.k == 'use':
                    return 'forwarded result'
        t = blk.term
        if t.k == 'call' and t.dest is not None and t.dest.is_local() and t.dest.local == 0:
            name = (t.resolved or t.callee or '')
            if name.endswith('from_residual'):
                # which call's failure is propagated: the call whose err edge leads here,
                # preferring the crate's own callee over the std adapters on the way
                cflows = flow.all_call_flows(body)
                cands = []
                for cb, cf in cflows.items():
                    for (src, dst) in cf.err_edges:
                        if dst == eb:
                            ct = body.blocks[cb].term
                            cands.append((ct.callee_krate == 'delaunay', cb, ct.resolved or ct.callee or '?'))
                if cands:
                    cands.sort(key=lambda c: (not c[0], c[1]))
                    return '?(%s)' % short(cands[0][2])
                return '?'
            return 'return %s(..)' % short(name)
        return 'return'
