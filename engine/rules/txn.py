"""TXN — rollback-on-failure dataflow.

For every body that holds a triangulation resource the analysis computes the set of
(exit class, dirty) outcomes, exit class in {ok, fail} (fail = `Err`, `None`, or an `Ok` whose
payload is `InsertionOutcome::Skipped`), dirty = "storage may differ from its value at entry".
MUT events make the state dirty; a whole-place assignment from an entry snapshot (a clone of the
same storage taken while clean) makes it clean again.  The result of a call to a callee that is
clean on failure is correlated with the edge taken when the result is split (`?`, `match`,
`if let Err`), so `foo()?` on an err-clean `foo` leaves the caller clean on the early return."""
from collections import deque

import flow
import pair

SKIPPED = ('core::operations::InsertionOutcome', 'Skipped')


class TxnEngine(pair.PairEngine):

    def __init__(self, prog, mod, resources, m_pred=None, infeasible=None, inverse_ok=None):
        super().__init__(prog, mod, resources, m_pred=m_pred, snapshot_resets=True, infeasible=infeasible,
                         replace_is_m=True)
        self.meta = {}
        self.inverse_ok = inverse_ok or {}

    # ---- per-body metadata
    def body_meta(self, q):
        if q in self.meta:
            return self.meta[q]
        body = self.prog.bodies[q]
        cflows = flow.all_call_flows(body)
        fwd = {}     # block -> call bb whose result is forwarded into _0 there
        for cb, cf in cflows.items():
            for fb in cf.forward_blocks:
                fwd[fb] = cb
        exits = {}   # block -> ex value
        rt = flow.type_kind(body.locals[0])
        for e in flow.exit_assignments(body):
            bb = e['bb']
            cls = e['cls']
            if cls == 'ok':
                if self._is_skipped(body, e.get('stmt')):
                    exits[bb] = 'fail'
                else:
                    exits[bb] = 'ok'
            elif cls in ('err', 'residual'):
                exits[bb] = 'fail'
            elif cls in ('forward', 'callret'):
                if bb in fwd:
                    exits[bb] = ('fwd', fwd[bb])
                elif cls == 'callret':
                    exits[bb] = ('fwd', bb)
                else:
                    exits[bb] = 'unknown' if rt in ('result', 'option') else 'ok'
            else:
                exits[bb] = 'unknown' if rt in ('result', 'option') else 'ok'
        # edges -> (call bb, 'ok' | 'fail')
        edge_cls = {}
        for cb, cf in cflows.items():
            for e_ in cf.ok_edges:
                edge_cls.setdefault(e_, []).append((cb, 'ok'))
            for e_ in cf.err_edges:
                edge_cls.setdefault(e_, []).append((cb, 'fail'))
        m = {'exits': exits, 'edge_cls': edge_cls, 'rt': rt}
        self.meta[q] = m
        return m

    def _is_skipped(self, body, stmt, depth=0):
        """Ok(payload) where the payload (transitively) contains InsertionOutcome::Skipped{..}."""
        if stmt is None or depth > 4:
            return False
        for o in stmt.rv.ops:
            if o.place is None:
                continue
            for (bb, idx, node) in body.defs.get(o.place.local, []):
                if idx == 'term':
                    continue
                rv = node.rv
                if rv.k == 'agg' and rv.raw.get('ak') == 'adt' and (rv.raw['adt'], rv.raw['variant']) == SKIPPED:
                    return True
                if rv.k in ('agg', 'use') and self._is_skipped(body, node, depth + 1):
                    return True
        return False

    # ---- transfer
    def _apply_t(self, q, b, st, e):
        k = e[0]
        if k == 'm':
            return {(1, sv, tag, ex) for (m, sv, tag, ex) in st}
        if k == 'snap':
            return {(m, sv & (1 if m == 0 else 0), tag, ex) for (m, sv, tag, ex) in st}
        if k == 'restore':
            return {((0 if sv else 1), sv, tag, ex) for (m, sv, tag, ex) in st}
        if k == 'inverse':
            return {(0, sv, tag, ex) for (m, sv, tag, ex) in st}
        if k in ('call', 'call_nob'):
            callee, cidx = e[1], e[2]
            summ = self.summary.get((callee, cidx), frozenset())
            cb = self.prog.bodies[callee]
            if cb.kind == 'closure' or self.prog.bodies[q].blocks[b].term.k != 'call' or \
                    (self.prog.bodies[q].blocks[b].term.resolved or self.prog.bodies[q].blocks[b].term.callee) != callee:
                cms = {cm for (_, cm) in summ}
                return {(m | cm, sv, tag, ex) for (m, sv, tag, ex) in st for cm in cms}
            t = self.prog.bodies[q].blocks[b].term
            to_ret = t.dest is not None and t.dest.is_local() and t.dest.local == 0
            out = set()
            for (m, sv, tag, ex) in st:
                for (cls, cm) in summ:
                    out.add((m | cm, sv, (b, cls), ('fwd', b) if to_ret else ex))
            return out
        return st

    def analyse(self, q, ridx, entry_m=0):
        body = self.prog.bodies[q]
        if (q, ridx) not in self.trace:
            self.trace[(q, ridx)] = self._events(q, ridx)
        ev = self.trace[(q, ridx)]
        meta = self.body_meta(q)
        exits, edge_cls = meta['exits'], meta['edge_cls']
        cut = self.cut_edges(q)
        start = (0, 1, None, None)
        state_in = {0: {start}}
        work = deque([0])
        out = set()
        while work:
            b = work.popleft()
            st = set(state_in[b])
            evs = ev.get(b, [])
            term_is_call = body.blocks[b].term.k == 'call'
            # statement events, then the _0 statement assignment, then the terminator call event
            n_evs = len(evs)
            for i, e in enumerate(evs):
                last_call = term_is_call and i == n_evs - 1 and e[0] in ('call', 'call_nob') and \
                    self.prog.bodies[e[1]].kind != 'closure'
                if last_call and b in exits and not isinstance(exits[b], tuple):
                    st = {(m, sv, tag, exits[b]) for (m, sv, tag, ex) in st}
                st = self._apply_t(q, b, st, e)
            if b in exits:
                ex_b = exits[b]
                if isinstance(ex_b, tuple) and ex_b[1] == b:
                    # `_0 = call(..)`: a callee without a resource summary leaves no tag
                    st = {(m, sv, tag, ex if (isinstance(ex, tuple) and ex[1] == b) else ex_b) for (m, sv, tag, ex) in st}
                else:
                    st = {(m, sv, tag, ex_b) for (m, sv, tag, ex) in st}
            if body.blocks[b].term.k == 'ret':
                for (m, sv, tag, ex) in st:
                    for cls in self._exit_classes(meta, tag, ex):
                        out.add((cls, m))
            for s in body.succs(b):
                if (b, s) in cut:
                    continue
                st2 = st
                ecs = edge_cls.get((b, s))
                if ecs:
                    nst = set()
                    for (m, sv, tag, ex) in st:
                        keep = True
                        ntag = tag
                        for (cb, cls) in ecs:
                            if tag is not None and tag[0] == cb:
                                if tag[1] != cls:
                                    keep = False
                                else:
                                    ntag = None
                        if keep:
                            nst.add((m, sv, ntag, ex))
                    st2 = nst
                cur = state_in.setdefault(s, set())
                if not st2 <= cur:
                    cur |= st2
                    if s not in work:
                        work.append(s)
        self.block_in[(q, ridx)] = state_in
        return frozenset(out)

    @staticmethod
    def _exit_classes(meta, tag, ex):
        if ex == 'ok':
            return ('ok',)
        if ex == 'fail':
            return ('fail',)
        if isinstance(ex, tuple):
            if tag is not None and tag[0] == ex[1]:
                return (tag[1],)
            return ('ok', 'fail')
        if ex == 'unknown':
            return ('ok', 'fail')
        # no assignment seen (unit / scalar returning functions)
        return ('ok',) if meta['rt'] not in ('result', 'option') else ('ok', 'fail')

    def solve(self):
        keys = [(q, i) for q, rs in self.R.res.items() for i in range(len(rs))]
        for k in keys:
            self.summary[k] = frozenset()
        changed = True
        rounds = 0
        while changed and rounds < 40:
            changed = False
            rounds += 1
            for k in keys:
                new = self.analyse(*k)
                if not new <= self.summary[k]:
                    self.summary[k] = new | self.summary[k]
                    changed = True
        self.rounds = rounds

    # ---- reporting
    def dirty_fail_witness(self, q, ridx):
        """Block path from entry to a return that is a failure exit with dirty storage."""
        body = self.prog.bodies[q]
        ev = self.trace[(q, ridx)]
        meta = self.body_meta(q)
        exits, edge_cls = meta['exits'], meta['edge_cls']
        cut = self.cut_edges(q)
        start = (0, (0, 1, None, None))
        prev = {start: None}
        dq = deque([start])
        goal = None
        while dq and goal is None:
            node = dq.popleft()
            b, s = node
            st = {s}
            evs = ev.get(b, [])
            for e in evs:
                st = self._apply_t(q, b, st, e)
            if b in exits:
                ex_b = exits[b]
                if isinstance(ex_b, tuple) and ex_b[1] == b:
                    st = {(m, sv, tag, ex if (isinstance(ex, tuple) and ex[1] == b) else ex_b) for (m, sv, tag, ex) in st}
                else:
                    st = {(m, sv, tag, ex_b) for (m, sv, tag, ex) in st}
            for s2 in st:
                if body.blocks[b].term.k == 'ret':
                    if s2[0] == 1 and 'fail' in self._exit_classes(meta, s2[2], s2[3]):
                        goal = (node, s2)
                        break
                for nb in body.succs(b):
                    if (b, nb) in cut:
                        continue
                    s3 = s2
                    ecs = edge_cls.get((b, nb))
                    if ecs:
                        keep = True
                        m, sv, tag, ex = s2
                        ntag = tag
                        for (cb, cls) in ecs:
                            if tag is not None and tag[0] == cb:
                                if tag[1] != cls:
                                    keep = False
                                else:
                                    ntag = None
                        if not keep:
                            continue
                        s3 = (m, sv, ntag, ex)
                    nn = (nb, s3)
                    if nn not in prev:
                        prev[nn] = node
                        dq.append(nn)
        if goal is None:
            return None
        node, final = goal
        path = []
        n = node
        while n is not None:
            path.append(n)
            n = prev[n]
        path.reverse()
        events = []
        for b, s in path:
            for e in ev.get(b, []):
                events.append({'bb': b, 'event': e[0], 'what': list(e[1:])})
        exit_bb = None
        for b, s in reversed(path):
            if b in exits:
                exit_bb = b
                break
        return {'blocks': [b for b, _ in path], 'events': events, 'exit_block': exit_bb, 'final': final}

    def blame(self, q, ridx, depth=0, seen=None):
        """Innermost body whose own mutation reaches its own failure exit uncleaned.
        Returns (chain of names, root-cause key, description)."""
        seen = seen if seen is not None else set()
        if (q, ridx) in seen or depth > 14:
            return [q], q, 'recursive'
        seen.add((q, ridx))
        w = self.dirty_fail_witness(q, ridx)
        body = self.prog.bodies[q]
        if not w:
            return [q], q, 'no witness path reconstructed'
        # the last event that made the state dirty on this path
        last_dirty = None
        for e in w['events']:
            if e['event'] == 'm':
                last_dirty = e
            elif e['event'] in ('call', 'call_nob'):
                cq, ci = e['what'][0], e['what'][1]
                summ = self.summary.get((cq, ci), ())
                if any(cm for (_, cm) in summ):
                    last_dirty = e
            elif e['event'] in ('restore', 'inverse'):
                last_dirty = None
        exit_desc = self._exit_desc(body, w)
        if last_dirty is None:
            return [q], q, 'dirty at ' + exit_desc
        if last_dirty['event'] == 'm':
            what = last_dirty['what'][-1]
            return [q], '%s|%s' % (q, exit_desc), 'mutation `%s` (line %s) then failure exit %s without restore' % (
                what, last_dirty['what'][0], exit_desc)
        cq, ci = last_dirty['what'][0], last_dirty['what'][1]
        summ = self.summary.get((cq, ci), ())
        # does the failure come from the callee itself being dirty-on-fail, on the path where we
        # forward / propagate its failure?
        callee_fail_dirty = ('fail', 1) in summ
        fwd_of_callee = False
        final_tag = w['final'][2]
        if final_tag is not None and self.prog.bodies[q].blocks[final_tag[0]].term.k == 'call':
            t = self.prog.bodies[q].blocks[final_tag[0]].term
            fwd_of_callee = (t.resolved or t.callee) == cq and final_tag[1] == 'fail'
        # propagated failure of the same callee (`?` right after the call)
        propagated = self._propagates(body, w, cq)
        if callee_fail_dirty and (fwd_of_callee or propagated):
            chain, key, desc = self.blame(cq, ci, depth + 1, seen)
            return [q] + chain, key, desc
        return [q], '%s|%s|after:%s' % (q, exit_desc, cq.rsplit('::', 1)[-1]), \
            'storage mutated by %s (line %s), then failure exit %s without restore' % (cq, last_dirty['what'][-1], exit_desc)

    def _propagates(self, body, w, callee):
        """Does the witness path take the failure edge of a call to `callee` and return?"""
        blocks = w['blocks']
        cflows = flow.all_call_flows(body)
        for i, b in enumerate(blocks[:-1]):
            for cb, cf in cflows.items():
                t = body.blocks[cb].term
                if (t.resolved or t.callee) != callee:
                    continue
                if (b, blocks[i + 1]) in cf.err_edges:
                    return True
        return False

    def _exit_desc(self, body, w):
        eb = w.get('exit_block')
        if eb is None:
            return 'return'
        blk = body.blocks[eb]
        # describe by constructor / propagated callee, never by line
        for s in blk.stmts:
            if s.kind == 'A' and s.place.is_local() and s.place.local == 0:
                if s.rv.k == 'agg':
                    inner = ''
                    for o in s.rv.ops:
                        if o.place is not None:
                            d = body.single_def(o.place.local)
                            if d is not None and d[1] != 'term' and d[2].rv.k == 'agg' and d[2].rv.raw.get('ak') == 'adt':
                                inner = '(%s::%s)' % (d[2].rv.raw['adt'].rsplit('::', 1)[-1], d[2].rv.raw['variant'])
                    return '%s%s' % (s.rv.raw.get('variant'), inner)
                if s.rv.k == 'use':
                    return 'forwarded result'
        t = blk.term
        if t.k == 'call' and t.dest is not None and t.dest.is_local() and t.dest.local == 0:
            name = (t.resolved or t.callee or '')
            if name.endswith('from_residual'):
                # which call's failure is propagated: find the call whose err edge leads here
                cflows = flow.all_call_flows(body)
                best = None
                for cb, cf in cflows.items():
                    for (src, dst) in cf.err_edges:
                        if dst == eb:
                            ct = body.blocks[cb].term
                            best = (ct.resolved or ct.callee or '?')
                if best:
                    return '?(%s)' % best.rsplit('::', 1)[-1]
                return '?'
            return 'return %s(..)' % name.rsplit('::', 1)[-1]
        return 'return'
