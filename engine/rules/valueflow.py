"""Backward value slice inside one body: which calls, places and constants a local's value is
computed from (through moves, casts, arithmetic, references and calls)."""


def sources(body, al, local, limit=200):
    """Returns a list of leaves:
       ('call', Term, bb)           value produced by / passed through this call
       ('place', (root, fields))    read from a place rooted at a parameter
       ('const', repr)
    Every call on the way is reported (not only leaves), so callers can ask "does the value
    depend on the result of f(..)"."""
    out = []
    seen = set()
    work = [local]
    n = 0
    while work and n < limit:
        l = work.pop()
        if l in seen:
            continue
        seen.add(l)
        n += 1
        if 1 <= l <= body.nargs:
            out.append(('param', l))
            continue
        for (bb, idx, node) in body.defs.get(l, []):
            if idx == 'term':
                out.append(('call', node, bb))
                for o in node.args:
                    if o.place is not None:
                        _place(body, al, o.place, out, work)
                    else:
                        out.append(('const', repr(o)))
                        # closures passed as arguments contribute their own bodies' values:
                        # reported as ('closurearg', qname)
                        if o.const and 'closure' in o.const:
                            out.append(('closure', o.const['closure']))
            else:
                rv = node.rv
                if rv.k == 'agg' and rv.raw.get('ak') == 'closure':
                    out.append(('closure', rv.raw['def']))
                for o in rv.ops:
                    if o.place is not None:
                        _place(body, al, o.place, out, work)
                    else:
                        out.append(('const', repr(o)))
                if rv.place is not None:
                    _place(body, al, rv.place, out, work)
        # partial assignments (x.0 = ..) also define
    return out


def _place(body, al, place, out, work):
    root, fields, derefd = al.norm(place)
    if 1 <= root <= body.nargs:
        out.append(('place', (root, fields)))
    work.append(place.local)
    if root != place.local:
        work.append(root)
