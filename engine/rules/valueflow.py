"""Backward value slice inside one body: which calls, places and constants a local's value is
computed from (through moves, casts, arithmetic, references and calls)."""


def sources(body, al, local, limit=200):
    """Returns a list of leaves:
       ('call', Term, bb)           value produced by / passed through this call
       ('place', (root, fields))    read from a place rooted at a parameter
       ('const', repr)
    Every call on the way is reported (not only leaves), so callers can ask "does the value
    depend on the result of f(..)"."""
    out = []
    seen = set()
    work = [local]
    n = 0
    while work and n < limit:
        l = work.pop()
        if l in seen:
            continue
        seen.add(l)
        n += 1
        if 1 <= l <= body.nargs:
            out.append(('param', l))
            continue
        for (bb, idx, node) in body.defs.get(l, []):
            if idx == 'term':
                out.append(('call', node, bb))
                for o in node.args:
                    if o.place is not None:
                        _place(body, al, o.place, out, work)
                    else:
                        out.append(('const', repr(o)))
                        # closures passed as arguments contribute their own bodies' values:
                        # reported as ('closurearg', qname)
                        if o.const and 'closure' in o.const:
                            out.append(('closure', o.const['closure']))
            else:
                rv = node.rv
                if rv.k == 'agg' and rv.raw.get('ak') == 'closure':
                    out.append(('closure', rv.raw['def']))
                for o in rv.ops:
                    if o.place is not None:
                        _place(body, al, o.place, out, work)
                    else:
                        out.append(('const', repr(o)))
                if rv.place is not None:
                    _place(body, al, rv.place, out, work)
        # partial assignments (x.0 = ..) also define
    return out


def _place(body, al, place, out, work):
    root, fields, derefd = al.norm(place)
    if 1 <= root <= body.nargs:
        out.append(('place', (root, fields)))
    work.append(place.local)
    if root != place.local:
        work.append(root)


def deep_sources(prog, mod, body, local, depth=3, _seen=None):
    """Backward value slice that also descends into the return value of crate-local callees
    (depth-limited).  Leaves carry the body they were found in:
       ('call', Term, bb, body_q)   ('place', (root, fields), body_q)   ('const', repr, body_q)
       ('op', opname, const_int or None, body_q)"""
    _seen = _seen if _seen is not None else set()
    key = (body.q, local)
    if key in _seen:
        return []
    _seen.add(key)
    al = mod.aliases(body.q)
    out = []
    seen = set()
    work = [local]
    n = 0
    while work and n < 400:
        l = work.pop()
        if l in seen:
            continue
        seen.add(l)
        n += 1
        if 1 <= l <= body.nargs:
            out.append(('param', l, body.q))
            continue
        defs_l = body.defs.get(l, [])
        if body.locals[l] == 'bool' and len(defs_l) > 1:
            # short-circuit `&&` / `||`: the value is decided by the branches that select which
            # assignment runs; add the conditions of the switches just above each assignment
            for (dbb, _, _) in defs_l:
                frontier = [dbb]
                seen_b = {dbb}
                for _step in range(8):
                    nxt = []
                    for x in frontier:
                        for p in body.preds.get(x, []):
                            if p in seen_b:
                                continue
                            seen_b.add(p)
                            nxt.append(p)
                            tp = body.blocks[p].term
                            if tp.k == 'switch' and tp.discr.place is not None and tp.discr.place.is_local():
                                work.append(tp.discr.place.local)
                    frontier = nxt
        for (bb, idx, node) in defs_l:
            if idx == 'term':
                out.append(('call', node, bb, body.q))
                name = node.resolved or node.callee or ''
                if depth > 0 and name in prog.bodies:
                    out += deep_sources(prog, mod, prog.bodies[name], 0, depth - 1, _seen)
                for o in node.args:
                    if o.place is not None:
                        _dplace(body, al, o.place, out, work)
                    else:
                        out.append(('const', repr(o), body.q))
                        if o.const and 'closure' in o.const and depth > 0 and o.const['closure'] in prog.bodies:
                            out += deep_sources(prog, mod, prog.bodies[o.const['closure']], 0, depth - 1, _seen)
            else:
                rv = node.rv
                if rv.k == 'bin':
                    ci = None
                    for o in rv.ops:
                        if o.int_value() is not None:
                            ci = o.int_value()
                    out.append(('op', rv.raw['op'], ci, body.q))
                if rv.k == 'agg' and rv.raw.get('ak') == 'closure' and depth > 0 and rv.raw['def'] in prog.bodies:
                    out += deep_sources(prog, mod, prog.bodies[rv.raw['def']], 0, depth - 1, _seen)
                for o in rv.ops:
                    if o.place is not None:
                        _dplace(body, al, o.place, out, work)
                    else:
                        out.append(('const', repr(o), body.q))
                if rv.place is not None:
                    _dplace(body, al, rv.place, out, work)
    return out


def _dplace(body, al, place, out, work):
    root, fields, derefd = al.norm(place)
    if fields:
        out.append(('place', (root, fields), body.q))
    work.append(place.local)
    if root != place.local:
        work.append(root)


def content_sources(body, al, local, limit=400):
    """Like `sources`, but a container local also gets what is written *into* it: every call that
    receives a mutable pointer to a visited local (push, extend, sort, deref_mut ...) is reported
    and its other arguments are followed.  Returns (leaves, visited locals)."""
    out = []
    seen = set()
    work = [local]
    # calls by the root local of each pointer argument
    by_root = {}
    for bb, t in body.calls():
        for i, o in enumerate(t.args):
            if o.place is None:
                continue
            tt = al.operand_target(o)
            if tt is not None and tt[2]:
                by_root.setdefault(tt[0], []).append((bb, t, i))
    n = 0
    while work and n < limit:
        l = work.pop()
        if l in seen:
            continue
        seen.add(l)
        n += 1
        if 1 <= l <= body.nargs:
            out.append(('param', l))
        for (bb, idx, node) in body.defs.get(l, []):
            if idx == 'term':
                out.append(('call', node, bb))
                for o in node.args:
                    if o.place is not None:
                        _place(body, al, o.place, out, work)
            else:
                rv = node.rv
                for o in rv.ops:
                    if o.place is not None:
                        _place(body, al, o.place, out, work)
                if rv.place is not None:
                    _place(body, al, rv.place, out, work)
        for (bb, t, i) in by_root.get(l, []):
            out.append(('call', t, bb))
            for j, o in enumerate(t.args):
                if j != i and o.place is not None:
                    _place(body, al, o.place, out, work)
            if t.dest is not None and t.dest.is_local():
                pass
    return out, seen


def capture_origin(prog, body, cap):
    """For closure `body` and capture field name `cap`: (parent body, parent local captured) or None."""
    parent = prog.bodies.get(body.parent)
    if parent is None:
        return None
    for blk in parent.blocks:
        for s_ in blk.stmts:
            if s_.kind == 'A' and s_.rv.k == 'agg' and s_.rv.raw.get('ak') == 'closure' and s_.rv.raw.get('def') == body.q:
                fl = s_.rv.raw.get('fields', [])
                if cap in fl and s_.rv.ops[fl.index(cap)].place is not None:
                    return parent, s_.rv.ops[fl.index(cap)].place.local
    return None


def deep_sources_up(prog, mod, body, local, depth=3, hops=3):
    """deep_sources, continued through closure captures into the enclosing bodies."""
    out = list(deep_sources(prog, mod, body, local, depth))
    if body.kind != 'closure' or hops <= 0:
        return out
    al = mod.aliases(body.q)
    caps = set()
    for leaf in sources(body, al, local):
        if leaf[0] == 'place' and leaf[1][0] == 1 and leaf[1][1] and leaf[1][1][0].startswith('^'):
            caps.add(leaf[1][1][0][1:])
    for leaf in out:
        if leaf[0] == 'place' and len(leaf) > 2 and leaf[2] == body.q and leaf[1][0] == 1 and leaf[1][1] and \
                leaf[1][1][0].startswith('^'):
            caps.add(leaf[1][1][0][1:])
    for cap in sorted(caps):
        org = capture_origin(prog, body, cap)
        if org is not None:
            out += deep_sources_up(prog, mod, org[0], org[1], depth, hops - 1)
    return out

