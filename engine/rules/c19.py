"""C19 — no panic, guaranteed termination (structural clauses).

 LOOP     every natural loop of every body is classified terminating: driven by a finite iterator,
          a bounded counter, a deserializer input, or a work list that is drained / guarded by a
          visited set / budgeted; what is left must be in the reasoned table (per function).
 REC      the recursive call-graph cycles are exactly the table's, each still with its bound idiom.
 PANIC    explicit panic sites (unwrap / expect / panic! / unreachable! / assert!) per function do
          not exceed the classified table (a new site is reported as unclassified).
 CALLBAN  no keyed `Index` / `IndexMut` on slot maps (panics on a stale key).
 FINITE   every exported path on which a caller-supplied vertex can reach Tds vertex storage passes
          the success edge of a coordinate-finiteness validation first.
Not decided: work proportional to size, stack depth, arithmetic overflow, bounds checks on indices
not derived from public handles, allocation failure."""
import sys
from collections import defaultdict

import flow
import gate
import loops
import tables

EXPLANATION = (
    "Termination and panic-freedom as shape properties of MIR. LOOP: natural loops (dominator back edges) of all "
    "bodies are classified by idiom (finite Iterator::next whose None edge leaves the loop and through which every "
    "cycle passes; counter compared on an exiting edge; serde input; work list popped on every cycle and either never "
    "pushed, pushed only behind the fresh edge of a visited-set test, or budgeted); the remainder must match a "
    "per-function table with the termination argument. REC: Tarjan SCCs of the resolved call graph must equal the "
    "table, and each cycle's bound idiom (constant-None re-entry, +1 depth parameter with an equality exit, recursion "
    "guard) is re-checked. PANIC: explicit panic call sites per function vs a classified table. CALLBAN: keyed slot-map "
    "indexing. FINITE: a least fixed point over the call graph of 'can reach vertex storage without a dominating "
    "coordinate validation'. Complexity, stack depth and arithmetic asserts are not decided.")

# ---------------------------------------------------------------- LOOP table: function -> reasons
LOOP_TABLE = {
    'core::algorithms::flips::repair_delaunay_with_flips_k2_k3_attempt': [
        '`while queues.has_work()`: some queue is non-empty, every iteration tries all four step functions and each '
        'step pops one item from its queue unless that queue is empty, so every iteration removes an item; items are '
        'only added after a flip, and flips are budgeted (C08 BUDGET: flips_performed > max_flips => NonConvergent)'],
    'core::builder::DelaunayTriangulationBuilder::build_periodic': [
        '`while improved`: add-only fixpoint — a pass sets `improved` only after turning one more `selected[idx]` from '
        'false to true, and nothing in the loop resets a selected flag; at most |candidates| productive passes',
        '`loop { best_move }`: strictly decreasing potential — a move is applied only when boundary_delta < 0, the '
        'boundary-facet count is a non-negative integer, and the loop breaks when no improving move exists'],
    'core::traits::facet_cache::FacetCacheProvider::try_get_or_build_facet_cache': [
        'compare-and-retry on the generation counter: repeats only while another holder of the shared counter keeps '
        'bumping it between the two loads (needs continuous concurrent mutation of a clone); single-threaded it runs '
        'at most twice'],
}

# ---------------------------------------------------------------- REC table
SEED = 'core::algorithms::flips::seed_repair_queues'
DFS = 'core::builder::search_closed_2d_selection::dfs'
VNC = 'core::collections::spatial_hash_grid::HashGridIndex::visit_neighbor_cells'
VQN = 'core::delaunay_triangulation::visit_quantized_neighbors'
DTQ = 'core::delaunay_triangulation::DelaunayTriangulation::'
REBUILD = frozenset({DTQ + 'maybe_repair_after_insertion', DTQ + 'rebuild_with_heuristic',
                     DTQ + 'repair_delaunay_with_flips_advanced', DTQ + 'run_flip_repair_fallbacks'})
REC_TABLE = {
    frozenset({SEED}): ('none-reentry', 'the self-call passes the constant None for the seed parameter and is reachable '
                                        'only on the Some edge of that parameter: depth <= 2'),
    frozenset({DFS}): ('depth-param', 'a parameter grows by one at every self-call and an equality test against a '
                                      'loop-invariant bound at entry returns'),
    frozenset({VNC}): ('depth-param', 'axis parameter +1 per level, returns at axis == D'),
    frozenset({VQN}): ('depth-param', 'axis parameter +1 per level, returns at axis == D'),
    REBUILD: ('guard', 'HeuristicRebuildRecursionGuard: the re-entrant repair is unreachable from the true edge of '
                       'in_progress(), and enter() precedes the re-entrant insertion'),
}
GUARD_IN_PROGRESS = 'core::delaunay_triangulation::HeuristicRebuildRecursionGuard::in_progress'
GUARD_ENTER = 'core::delaunay_triangulation::HeuristicRebuildRecursionGuard::enter'

# ---------------------------------------------------------------- PANIC table: function -> (max sites, class)
A = 'assert!/debug_assert! on an internal invariant or a const-generic bound; not input-dependent for D <= 5'
B = 'expect/unwrap on a value that an infallible conversion produced or that was checked earlier in the same body'
C = 'la-stack matrix dispatch macro: panics only for a matrix dimension beyond the supported maximum (D <= 5 => k <= 7)'
Dd = 'documented precondition of a utility function (# Panics)'
E = 'debug-only developer diagnostic (debug_assert!(false, ..)) behind a failed validate_at_completion'
PANIC_TABLE = {
    'core::algorithms::flips::apply_bistellar_flip_with_k': (2, A),
    'core::algorithms::incremental_insertion::fill_cavity': (1, A),
    'core::algorithms::locate::extract_cavity_boundary': (1, A),
    'core::builder::DelaunayTriangulationBuilder::build_periodic': (33, B + ' (u8/i8/usize conversions of indices bounded by 3^D and D, map entries inserted in the same body)'),
    'core::cell::Cell::set_periodic_vertex_offsets': (1, A),
    'core::cell::Cell::mirror_facet_index': (1, A),
    'core::cell::Cell::swap_vertex_slots': (3, A + ' (pub(crate); callers pass 0 and 1 after checking the vertex count)'),
    'core::cell::Cell::ensure_neighbors_buffer_mut': (1, A),
    '<core::delaunay_triangulation::RetryPolicy as std::default::Default>::default': (1, B + ' (NonZeroUsize::new of a non-zero constant)'),
    'core::delaunay_triangulation::DelaunayTriangulation::preprocess_vertices_for_construction': (1, B),
    'core::facet::AllFacetsIter::new': (1, A),
    'core::triangulation::Triangulation::set_validation_policy': (1, E),
    'core::triangulation::Triangulation::set_topology_guarantee': (1, E),
    'core::triangulation::Triangulation::boundary_facets': (1, 'expect on build_facet_to_cells_map: fails only for a Tds whose cells reference missing vertex keys (Level-2 invalid); documented # Panics'),
    'core::triangulation::Triangulation::debug_assert_adjacency_index_matches': (2, A),
    'core::triangulation::Triangulation::insert_transactional': (1, 'unreachable!() after a loop whose last iteration returns on every arm'),
    'core::triangulation::Triangulation::star_split_boundary_facets': (1, B + ' (u8::try_from(i), i <= D)'),
    'core::triangulation::Triangulation::validate_connectedness': (1, B + ' (first element of a set built non-empty by the caller; early return on empty above)'),
    'core::triangulation::Triangulation::try_insert_impl': (2, B + '; unreachable!() arm whose variants returned on earlier arms'),
    'core::triangulation_data_structure::Tds::insert_cell_with_mapping': (1, A),
    'core::triangulation_data_structure::Tds::build_facet_to_cells_map': (1, A),
    'core::util::deduplication::dedup_vertices_epsilon': (1, Dd + ': negative epsilon'),
    'core::util::facet_keys::periodic_facet_key_from_lifted_vertices': (1, B),
    'core::util::hilbert::hilbert_quantize_unchecked': (1, A),
    'core::util::hilbert::hilbert_index_from_quantized': (3, A),
    'core::vertex::Vertex::from_points': (1, B + ' (VertexBuilder with the mandatory point set)'),
    'geometry::algorithms::convex_hull::ConvexHull::is_facet_visible_from_point_with_cache': (1, A + ' (callers pass the staleness gate first: C11)'),
    'geometry::matrix::matrix_get': (1, A),
    'geometry::matrix::matrix_set': (1, A),
    'geometry::predicates::simplex_orientation': (1, C),
    'geometry::predicates::insphere': (1, C),
    'geometry::predicates::insphere_lifted': (1, C),
    'geometry::robust_predicates::fill_insphere_predicate_matrix': (1, A),
    'geometry::robust_predicates::adaptive_tolerance_insphere': (1, C),
    'geometry::robust_predicates::conditioned_insphere': (1, C),
    'geometry::robust_predicates::robust_orientation': (1, C),
    'geometry::util::measures::facet_measure_gram_matrix': (1, C),
    'geometry::util::triangulation_generation::random_triangulation_build_vertices': (2, B),
    'geometry::util::triangulation_generation::generate_random_triangulation_with_topology_guarantee': (1, B + ' (taken only on attempt 0)'),
    'topology::characteristics::euler::insert_simplices_of_size': (1, A),
}

INSV = 'core::triangulation_data_structure::Tds::insert_vertex_with_mapping'
VALIDATORS = {tables.L1_COORD, 'core::vertex::Vertex::is_valid'}
# exported functions from which storage is reachable without a dominating finiteness validation
# and that were triaged (reason each)
_BATCH = ('batch construction: the vertex enters the storage of a triangulation that is still under construction; every '
          'predicate evaluated on it fails (safe_coords_to_f64 rejects non-finite values), the constructor returns Err and '
          'the partial triangulation is dropped (probed with NaN / inf at positions 0, 2 and 4 of a 2-D input: Err)')
_FLIP = ('Edit-API k=1 insertion: orientation of every new cell is evaluated before any cell is inserted and fails on a '
         'non-finite coordinate; the k=1 clean-up then removes the vertex again (C03 owner apply_bistellar_flip_k1; probed: '
         'Err, vertex count unchanged)')
FINITE_TABLE = {
    '<core::delaunay_triangulation::DelaunayTriangulation as triangulation::flips::BistellarFlips>::flip_k1_insert': _FLIP,
    '<core::triangulation::Triangulation as triangulation::flips::BistellarFlips>::flip_k1_insert': _FLIP,
    'core::triangulation::Triangulation::build_initial_simplex': _BATCH + ' (returns an owned Tds; the orientation check of the simplex fails)',
}
for _n in ('new', 'new_with_construction_statistics', 'new_with_options', 'new_with_options_and_construction_statistics',
           'new_with_topology_guarantee', 'with_kernel', 'with_topology_guarantee', 'with_topology_guarantee_and_options',
           'with_topology_guarantee_and_options_with_construction_statistics'):
    FINITE_TABLE['core::delaunay_triangulation::DelaunayTriangulation::' + _n] = _BATCH


def run(ctx):
    ctx.rule('LOOP', 'every natural loop is classified terminating by idiom or is in the reasoned per-function table')
    ctx.rule('REC', 'recursive call-graph cycles equal the table and keep their bound idiom')
    ctx.rule('PANIC', 'explicit panic sites per function do not exceed the classified table')
    ctx.rule('CALLBAN', 'no keyed Index/IndexMut on slot maps')
    ctx.rule('FINITE', 'caller-supplied vertices pass a coordinate-finiteness validation before they can reach storage')
    for cfg in ctx.cfgs:
        prog = ctx.prog(cfg)
        mod = ctx.mod(cfg)
        _loops(ctx, cfg, prog, mod)
        _rec(ctx, cfg, prog, mod)
        _panic(ctx, cfg, prog, mod)
        _arith(ctx, cfg, prog, mod)
        _idxguard(ctx, cfg, prog, mod)
        _idxcmp(ctx, cfg, prog, mod)
        _capalloc(ctx, cfg, prog, mod)
        _callban(ctx, cfg, prog, mod)
        _finite(ctx, cfg, prog, mod)
        _assertgate(ctx, cfg, prog, mod)
        _rngrange(ctx, cfg, prog, mod)
        _rangeguard(ctx, cfg, prog, mod)
    return ctx.finish(EXPLANATION)


# ------------------------------------------------------------------------------------------ LOOP
def _loops(ctx, cfg, prog, mod):
    counts = defaultdict(int)
    unclassified = defaultdict(list)
    for q, b in prog.bodies.items():
        ls = loops.natural_loops(b)
        if not ls:
            continue
        al = mod.aliases(q)
        for h in sorted(ls):
            cls, detail = loops.classify(prog, b, h, ls[h], al)
            counts[cls] += 1
            if cls == 'unclassified':
                unclassified[b.root or q].append((q, h, b.blocks[h].term.line, detail, b.file))
    total = sum(counts.values())
    ctx.floor('natural loops analysed', 800, total, cfg)
    ctx.info.setdefault('loop_classes', {})[cfg] = dict(counts)
    ok_n = total - counts['unclassified']
    ctx.ob('LOOP', 'classified-by-idiom', cfg, True,
           '%d of %d loops classified terminating by idiom: %s' % (ok_n, total, dict(counts)))
    for root, items in sorted(unclassified.items()):
        reasons = LOOP_TABLE.get(root, [])
        for i, (q, h, line, detail, file) in enumerate(items):
            key = '%s|unclassified-loop-%d' % (root, i + 1)
            if i < len(reasons):
                ctx.ob('LOOP', key, cfg, False, 'loop at %s:%d not classified by idiom (%s)' % (file, line, detail),
                       assumed='table: ' + reasons[i], site='%s:%d' % (file, line))
            else:
                ctx.ob('LOOP', key, cfg, False,
                       'loop at %s:%d in %s matches no terminating idiom (%s) and the function has only %d table '
                       'entr%s: a possibly unbounded loop' % (file, line, q, detail, len(reasons),
                                                              'y' if len(reasons) == 1 else 'ies'),
                       site='%s:%d' % (file, line))
    for root in LOOP_TABLE:
        if root not in prog.bodies:
            ctx.ob('ANCHOR', 'missing|' + root, cfg, False, 'LOOP table names a function that no longer exists')
    if cfg == ctx.cfgs[0]:
        ctx.sample({'rule': 'LOOP', 'classes': dict(counts)})


# ------------------------------------------------------------------------------------------ REC
def _sccs(prog):
    g = {q: {c for c in cs if c in prog.bodies} for q, cs in prog.callgraph.items()}
    sys.setrecursionlimit(20000)
    idx, low, st, on, res = {}, {}, [], set(), []
    counter = [0]

    def sc(v):
        idx[v] = low[v] = counter[0]
        counter[0] += 1
        st.append(v)
        on.add(v)
        for w in g.get(v, ()):
            if w not in idx:
                sc(w)
                low[v] = min(low[v], low[w])
            elif w in on:
                low[v] = min(low[v], idx[w])
        if low[v] == idx[v]:
            comp = []
            while True:
                w = st.pop()
                on.discard(w)
                comp.append(w)
                if w == v:
                    break
            if len(comp) > 1 or v in g.get(v, ()):
                res.append(comp)
    for v in list(g):
        if v not in idx:
            sc(v)
    return res


def _rec(ctx, cfg, prog, mod):
    sccs = _sccs(prog)
    seen = set()
    for comp in sccs:
        roots = frozenset((prog.bodies[q].root or q) for q in comp)
        seen.add(roots)
        ent = REC_TABLE.get(roots)
        key = '+'.join(sorted(r.rsplit('::', 1)[-1] for r in roots))
        b0 = prog.bodies[sorted(comp)[0]]
        if ent is None:
            ctx.ob('REC', 'cycle|' + '+'.join(sorted(roots)), cfg, False,
                   'recursive call-graph cycle %s is not in the table: unbounded recursion not excluded' % sorted(comp),
                   site='%s:%d' % (b0.file, b0.line))
            continue
        idiom, reason = ent
        ok, why = _check_idiom(prog, mod, comp, idiom)
        ctx.ob('REC', 'cycle|' + key, cfg, ok, '%s idiom %s: %s (table: %s)' % (idiom, 'holds' if ok else 'LOST', why, reason),
               site='%s:%d' % (b0.file, b0.line))
        if cfg == ctx.cfgs[0]:
            ctx.sample({'rule': 'REC', 'cycle': sorted(comp), 'idiom': idiom, 'holds': ok})
    ctx.floor('recursive cycles found', 3, len(sccs), cfg)


def _check_idiom(prog, mod, comp, idiom):
    if idiom == 'depth-param':
        q = comp[0]
        b = prog.bodies[q]
        selfcalls = [(bb, t) for bb, t in b.calls() if (t.resolved or t.callee) == q]
        if not selfcalls:
            return False, 'no self-call found'
        for p in range(1, b.nargs + 1):
            if b.locals[p] not in ('usize', 'u32', 'u64', 'u8', 'i32', 'isize'):
                continue
            good = True
            for bb, t in selfcalls:
                if p - 1 >= len(t.args) or not _is_plus_const(b, t.args[p - 1], p):
                    good = False
            if not good:
                continue
            # an Eq/Ge comparison on p whose true edge cannot reach a self-call
            for blk in b.blocks:
                if blk.cleanup:
                    continue
                for s in blk.stmts:
                    if s.kind == 'A' and s.rv.k == 'bin' and s.rv.raw['op'] in ('Eq', 'Ge', 'Gt') and \
                            any(o.place is not None and o.place.is_local() and _copy_of(b, o.place.local, p) for o in s.rv.ops):
                        c = s.place.local
                        for (sbb, _, snode, how) in flow._collect_uses(b).get(c, []):
                            if how == 'switch':
                                listed = {v: tg for v, tg in snode.values}
                                true_t = snode.otherwise if 0 in listed else None
                                if true_t is None:
                                    continue
                                reach = flow.reach_edges(b, [true_t])
                                if not any(bb in reach for bb, _ in selfcalls) and \
                                        all(b.dominates(sbb, bb) for bb, _ in selfcalls):
                                    return True, 'parameter _%d is +const at every self-call; `%s` exit at block %d dominates them' % (p, s.rv.raw['op'], sbb)
        return False, 'no parameter found that grows at every self-call and has a dominating equality exit'
    if idiom == 'none-reentry':
        q = comp[0]
        b = prog.bodies[q]
        selfcalls = [(bb, t) for bb, t in b.calls() if (t.resolved or t.callee) == q]
        if not selfcalls:
            return False, 'no self-call found'
        for p in range(1, b.nargs + 1):
            if not b.locals[p].startswith('std::option::Option'):
                continue
            all_none = True
            for bb, t in selfcalls:
                o = t.args[p - 1] if p - 1 < len(t.args) else None
                if o is None or not _is_none(b, o):
                    all_none = False
            if not all_none:
                continue
            # self-calls reachable only through the Some edge of discriminant(param p)
            edges = set()
            uses = flow._collect_uses(b)
            locs = {p}
            for (ubb, _, node, how) in uses.get(p, []):
                if how == 'stmt' and node.rv.k == 'discr' and node.place.is_local():
                    for (sbb, _, snode, show) in uses.get(node.place.local, []):
                        if show == 'switch':
                            listed = {v: tg for v, tg in snode.values}
                            if 1 in listed:
                                edges.add((sbb, listed[1]))
                            elif 0 in listed:
                                edges.add((sbb, snode.otherwise))
            if edges:
                reach = flow.reach_edges(b, [0], avoid_edges=edges)
                if not any(bb in reach for bb, _ in selfcalls):
                    return True, 'self-call passes None for parameter _%d and lies behind its Some edge' % p
        return False, 'no Option parameter re-entered with None behind its own Some edge'
    if idiom == 'guard':
        names = {prog.bodies[q].root or q for q in comp}
        # 1. in the member that calls the re-entrant repair: call unreachable from true edge of in_progress()
        ok1 = False
        ok2 = False
        why = []
        for q in comp:
            b = prog.bodies[q]
            gcalls = [bb for bb, t in b.calls() if (t.resolved or t.callee) == GUARD_IN_PROGRESS]
            if gcalls:
                true_edges = set()
                for bb in gcalls:
                    true_edges |= flow.call_flow(b, bb).ok_edges
                targets = [bb for bb, t in b.calls() if (t.resolved or t.callee) in comp or
                           (prog.bodies.get(t.resolved or t.callee or '') is not None and
                            (prog.bodies[t.resolved or t.callee].root or (t.resolved or t.callee)) in names
                            and (t.resolved or t.callee) != q)]
                region = flow.reach_edges(b, [d for (_, d) in true_edges])
                bad = [bb for bb in targets if bb in region]
                if true_edges and not bad:
                    ok1 = True
                    why.append('re-entrant call in %s is unreachable once in_progress() is true' % q.rsplit('::', 1)[-1])
                else:
                    why.append('in %s a cycle call is reachable from the true edge of in_progress()' % q.rsplit('::', 1)[-1])
            ecalls = [bb for bb, t in b.calls() if (t.resolved or t.callee) == GUARD_ENTER]
            if ecalls:
                ok2 = True
                why.append('Guard::enter() taken in %s' % q.rsplit('::', 1)[-1])
        return ok1 and ok2, '; '.join(why) or 'guard calls not found'
    return False, 'unknown idiom'


def _is_plus_const(b, o, p):
    """operand is (copy of) param p + positive constant (through the overflow-check tuple)."""
    if o.place is None or not o.place.is_local():
        return False
    seen = set()
    work = [o.place.local]
    while work:
        l = work.pop()
        if l in seen:
            continue
        seen.add(l)
        for (bb, idx, node) in b.defs.get(l, []):
            if idx == 'term':
                continue
            rv = node.rv
            if rv.k == 'bin' and rv.raw['op'] in ('Add', 'AddWithOverflow', 'AddUnchecked'):
                a, c = rv.ops
                if a.place is not None and a.place.is_local() and _copy_of(b, a.place.local, p) and (c.int_value() or 0) > 0:
                    return True
            if rv.k == 'use' and rv.ops and rv.ops[0].place is not None:
                work.append(rv.ops[0].place.local)
    return False


def _copy_of(b, local, p):
    seen = set()
    work = [local]
    while work:
        l = work.pop()
        if l == p:
            return True
        if l in seen:
            continue
        seen.add(l)
        for (bb, idx, node) in b.defs.get(l, []):
            if idx != 'term' and node.rv.k == 'use' and node.rv.ops and node.rv.ops[0].place is not None and \
                    node.rv.ops[0].place.is_local():
                work.append(node.rv.ops[0].place.local)
    return False


def _is_none(b, o):
    if o.place is None or not o.place.is_local():
        return False
    ds = b.defs.get(o.place.local, [])
    return bool(ds) and all(idx != 'term' and node.rv.k == 'agg' and node.rv.raw.get('variant') == 'None'
                            for (bb, idx, node) in ds)


# ------------------------------------------------------------------------------------------ PANIC
def _panic_sites(prog):
    sites = defaultdict(list)
    for q, b in prog.bodies.items():
        for bb, t in b.calls():
            n = t.resolved or t.callee or ''
            last = n.rsplit('::', 1)[-1]
            if n.startswith('core::panicking') or n.startswith('std::rt::begin_panic') or \
                    (last in ('unwrap', 'expect', 'unwrap_err', 'expect_err') and ('Option' in n or 'Result' in n)):
                sites[b.root or q].append((last, t.line, b.file))
    return sites


def _panic(ctx, cfg, prog, mod):
    sites = _panic_sites(prog)
    total = sum(len(v) for v in sites.values())
    ctx.floor('explicit panic sites enumerated', 60, total, cfg)
    for root, lst in sorted(sites.items()):
        ent = PANIC_TABLE.get(root)
        b = prog.bodies.get(root)
        site = '%s:%d' % (lst[0][2], lst[0][1])
        if ent is None:
            ctx.ob('PANIC', root, cfg, False,
                   '%d explicit panic site(s) (%s at lines %s) in a function with no table entry: unclassified, may be '
                   'reachable from the public API' % (len(lst), sorted({k for k, _, _ in lst}), [l for _, l, _ in lst][:6]),
                   site=site)
        elif len(lst) > ent[0]:
            ctx.ob('PANIC', root, cfg, False,
                   '%d explicit panic sites, table classifies %d (%s): %d new unclassified site(s) at lines %s' % (
                       len(lst), ent[0], ent[1], len(lst) - ent[0], [l for _, l, _ in lst][:8]), site=site)
        else:
            ctx.ob('PANIC', root, cfg, True, '%d site(s) <= %d classified: %s' % (len(lst), ent[0], ent[1]), site=site)
    if cfg == ctx.cfgs[0]:
        ctx.sample({'rule': 'PANIC', 'functions_with_sites': len(sites), 'sites': total})


# ------------------------------------------------------------------------------------------ ARITH
# Integer arithmetic that panics in builds with overflow checks (the default dev/test profile) and wraps
# silently elsewhere: MIR `Assert` terminators of kind Overflow(*) / OverflowNeg / DivisionByZero /
# RemainderByZero.  Counted per function (closures with their parent), excluding (i) operations whose
# operands are all constants or const generics, (ii) `usize` additions / multiplications (index and length
# arithmetic, bounded by what is allocated; not decided).  `usize` subtractions stay in (`len - 1`).
# value: (classified count, reason)
_SHIFT = 'shift / mask by a bit count that the function bounds first (bits <= 31, D * bits <= 128) or by a literal'
_SMALLCOUNT = 'u8 multiplicity counter of cells around one facet / ridge / edge; bounded by the (small) degree of that face'
_DMINUS = 'D - 1 / D + 2 - k on the const dimension and a flip arity validated just above (k <= D + 1)'
_LATTICE = 'lattice offsets in {-1, 0, 1} and digits in {0, 1, 2}; i16 widening before the +128 bias'
_COMB = 'combination enumeration on indices with k <= n checked on entry'
_MEMCOUNT = 'usize product of an in-memory collection length, D + 1 and a small constant (a flip budget): bounded by the size of the allocation'
ARITH_TABLE = {
    'core::delaunay_triangulation::DelaunayTriangulation::finalize_bulk_construction': (2, _MEMCOUNT),
    'core::delaunay_triangulation::DelaunayTriangulation::insert_remaining_vertices_seeded': (8, _MEMCOUNT),
    'core::algorithms::flips::BistellarFlipKind::inverse': (1, _DMINUS),
    'core::algorithms::flips::apply_bistellar_flip_with_k': (1, _DMINUS),
    'core::algorithms::flips::build_flip_topology_index': (1, _SMALLCOUNT),
    'core::algorithms::flips::build_k3_flip_context': (1, _SMALLCOUNT + ' (3 cells around the ridge)'),
    'core::algorithms::flips::build_k3_flip_context_from_triangle': (2, _DMINUS),
    'core::algorithms::incremental_insertion::find_visible_boundary_facets': (1, 'len() - 1 of a vector that was just filled with D + 1 points'),
    'core::algorithms::locate::extract_cavity_boundary': (1, 'len() - 1 behind `len() >= 2`'),
    'core::algorithms::locate::is_point_outside_facet': (1, 'product of two orientation signs in {-1, 0, 1}'),
    'core::builder::DelaunayTriangulationBuilder::build_periodic': (23, _LATTICE + '; 2 * D + 1 and zero_offset_idx * n (an index into the 3^D * n image list that was just allocated)' + '; jitter arithmetic on values reduced modulo a constant span (|x| < 2^52); '
                                                                    'facet multiplicities (u8) of a candidate complex; Euler count difference of cell counts'),
    'core::builder::search_closed_2d_selection::dfs': (8, _SMALLCOUNT + '; decrements mirror the increments on backtracking'),
    'core::delaunay_triangulation::morton_code': (2, _SHIFT),
    'core::delaunay_triangulation::order_vertices_morton': (2, _SHIFT),
    'core::triangulation::Triangulation::build_adjacency_index': (2, 'division by the literal 2; telemetry counter + 1'),
    'core::triangulation::Triangulation::collect_edges': (1, 'division by the literal 2'),
    'core::triangulation::Triangulation::insert_transactional': (2, 'remainder by the literal 2; shift by the literal 32'),
    'core::triangulation_data_structure::Tds::facet_vertex_identities_in_cell_order': (1, _LATTICE),
    'core::util::facet_keys::periodic_facet_key_from_lifted_vertices': (3, _LATTICE + '; capacity hint len() * (D + 1) of an in-memory facet'),
    'core::util::facet_utils::generate_combinations': (3, _COMB),
    'core::util::hashing::stable_hash_u64_slice': (3, _SHIFT),
    'core::util::hilbert::hilbert_index': (1, _SHIFT),
    'core::util::hilbert::hilbert_index_from_quantized': (9, _SHIFT),
    'core::util::hilbert::hilbert_indices_prequantized': (1, _SHIFT),
    'core::util::hilbert::hilbert_quantize': (2, _SHIFT),
    'core::util::hilbert::hilbert_quantize_unchecked': (2, _SHIFT),
    'core::util::hilbert::hilbert_sort_by_stable': (1, _SHIFT),
    'core::util::hilbert::hilbert_sort_by_unstable': (1, _SHIFT),
    'core::util::hilbert::hilbert_sorted_indices': (1, _SHIFT),
    'core::util::jaccard::compute_set_metrics': (1, '|A| + |B| - |A and B| with the intersection counted from A'),
    'geometry::matrix::adaptive_tolerance': (2, 'ncols - 1 of a matrix with at least one column'),
    'geometry::quality::compute_scale_aware_epsilon': (1, 'edge counter over the D(D+1)/2 edges of one simplex'),
    'geometry::util::circumsphere::circumcenter': (1, 'len() - 1 behind the is_empty() refusal'),
    'geometry::util::conversions::safe_usize_to_scalar': (2, _SHIFT),
    'geometry::util::point_generation::format_bytes': (1, 'UNITS.len() - 1 on a non-empty constant table'),
    'geometry::util::point_generation::generate_grid_points': (1, 'points_per_dim - 1 in an error message behind points_per_dim > 0'),
    'geometry::util::triangulation_generation::generate_random_triangulation_with_topology_guarantee': (1, 'division by the literal 6'),
    'geometry::util::triangulation_generation::random_triangulation_try_with_vertices': (1, 'attempt counter (< retry limit) + 1'),
    'topology::characteristics::euler::euler_characteristic': (2, 'remainder by the literal 2; sign * count with count <= isize::MAX'),
    'topology::characteristics::euler::expected_chi_for': (1, '1 + (+-1)'),
    'topology::characteristics::euler::insert_simplices_of_size': (3, _COMB),
    'topology::manifold::build_ridge_star_map': (1, 'division by the literal 2'),
    'topology::manifold::build_ridge_star_map_for_cells': (1, 'division by the literal 2'),
}


def _literal_divisor(b, t):
    """The assert condition is `divisor == 0`; a divisor that is a non-zero literal cannot trip it."""
    c = t.raw.get('c')
    if not c or c[0] == 'k' or c[1][1]:
        return False
    d = b.single_def(c[1][0])
    if d is None or d[1] == 'term' or d[2].rv.k != 'bin' or d[2].rv.raw.get('op') != 'Eq':
        return False
    vals = [o.int_value() for o in d[2].rv.ops]
    # Eq(divisor, 0): the divisor is the operand that is not the literal 0; literal non-zero divisor => both const
    consts = [o for o in d[2].rv.ops if o.kind == 'k']
    return len(consts) == 2 and any(v not in (None, 0) for v in vals)


def _arith_sites(prog):
    out = defaultdict(list)
    for q, b in prog.bodies.items():
        if '::tests::' in q or not b.file.startswith('src/'):
            continue
        for blk in b.blocks:
            t = blk.term
            if t.k != 'assert':
                continue
            m = t.raw.get('m') or ''
            if not (m.startswith('Overflow') or m in ('DivisionByZero', 'RemainderByZero')):
                continue
            mo = t.raw.get('mo', [])
            kinds = [o[0] for o in mo]
            if kinds and all(k == 'k' for k in kinds):
                continue
            ty = None
            for o in mo:
                if o[0] == 'k':
                    ty = ty or o[1].get('ty')
                elif not o[1][1]:
                    ty = b.locals[o[1][0]]
            if ty == 'usize' and m == 'Overflow(Add)':
                continue            # index / counter arithmetic on in-memory sizes: ~390 sites, not classified
            if m in ('DivisionByZero', 'RemainderByZero') and _literal_divisor(b, t):
                continue
            out[b.root or q].append((m, ty, t.line, b.file))
    return out


def _arith(ctx, cfg, prog, mod):
    ctx.rule('ARITH', 'checked integer arithmetic (overflow / division asserts) per function matches the classified table')
    sites = _arith_sites(prog)
    total = sum(len(v) for v in sites.values())
    if total == 0:
        ctx.ob('ARITH', 'profile', cfg, True, 'no overflow checks are compiled in this configuration (arithmetic wraps): nothing to '
                                              'classify here; the dev fact base carries the rule', nontrivial=False)
        return
    has_overflow_checks = any(m.startswith('Overflow') for lst in sites.values() for m, _, _, _ in lst)
    ctx.floor('checked arithmetic sites enumerated (%s)' % ('overflow checks on' if has_overflow_checks else 'division checks only'),
              50 if has_overflow_checks else 1, total, cfg)
    for root, lst in sorted(sites.items()):
        ent = ARITH_TABLE.get(root)
        site = '%s:%d' % (lst[0][3], lst[0][2])
        kinds = sorted({'%s %s' % (m, ty) for m, ty, _, _ in lst})
        if ent is None:
            ctx.ob('ARITH', root, cfg, False,
                   '%d checked arithmetic site(s) (%s at lines %s) in a function with no table entry: panics in builds with '
                   'overflow checks (dev / test profile), wraps silently otherwise' % (len(lst), kinds, [l for _, _, l, _ in lst][:6]),
                   site=site)
        elif len(lst) > ent[0]:
            ctx.ob('ARITH', root, cfg, False,
                   '%d checked arithmetic sites (%s), table classifies %d (%s): %d new unclassified site(s); lines %s' % (
                       len(lst), kinds, ent[0], ent[1], len(lst) - ent[0], [l for _, _, l, _ in lst][:10]), site=site)
        else:
            ctx.ob('ARITH', root, cfg, True, '%d site(s) <= %d classified: %s' % (len(lst), ent[0], ent[1]), site=site)


# ------------------------------------------------------------------------------------------ CAPALLOC
def _capalloc(ctx, cfg, prog, mod):
    """CAPALLOC (after fix F29): `Vec::with_capacity(n)` / `reserve(n)` panic ("capacity overflow") or abort when `n`
    elements cannot be allocated.  In the point generators `n` is the caller's `n_points`: an infallible allocation whose
    size is a `usize` parameter of an exported generator (directly or through a copy) is banned there; `try_reserve*` with a
    typed error, or a size that went through the memory-cap arithmetic of the grid generator, is what remains."""
    ctx.rule('CAPALLOC', 'the point generators never size an infallible allocation with the caller-supplied point count')
    n = 0
    gens = 0
    for q, b in sorted(prog.bodies.items()):
        if '::tests::' in q or b.file != 'src/geometry/util/point_generation.rs':
            continue
        if b.kind != 'closure' and b.exported:
            gens += 1
        for bb, t in b.calls():
            name = (t.callee or t.resolved or '')
            last = name.rsplit('::', 1)[-1]
            if last not in ('with_capacity', 'reserve', 'reserve_exact') or 'try_' in last:
                continue
            n += 1
            arg = t.args[-1] if t.args else None
            direct = False
            if arg is not None and arg.place is not None and arg.place.is_local():
                l = arg.place.local
                for _ in range(4):
                    if 1 <= l <= b.nargs and b.locals[l] == 'usize':
                        direct = True
                        break
                    d = b.single_def(l)
                    if d is None or d[1] == 'term' or d[2].rv.k != 'use' or not d[2].rv.ops or d[2].rv.ops[0].place is None:
                        break
                    l = d[2].rv.ops[0].place.local
            ctx.ob('CAPALLOC', '%s|%s' % (b.root or q, last), cfg, not direct,
                   '%s is sized by a derived value' % last if not direct else
                   '%s(n_points): an impossible point count (usize::MAX) panics with "capacity overflow" instead of a typed error' % last,
                   site='%s:%d' % (b.file, t.line))
    ctx.floor('exported point generators', 4, gens, cfg)
    ctx.ob('CAPALLOC', 'summary', cfg, True, '%d infallible allocation call(s) in the point-generation module, none sized by a parameter' % n,
           nontrivial=False)


# ------------------------------------------------------------------------------------------ IDXCMP
# A slice / array index that is not a literal is a panic site unless something bounds it.  Accepted evidence, anywhere in
# the function (not dominance: loop-carried indices are compared at the loop head): the index derives from a named
# variable that also feeds an ORDER comparison (<, <=, >, >=), or its backward slice contains an iterator position
# (`next`, `enumerate`, `position`), a `len`, `min`, `clamp`, `rem_euclid` call or a remainder.  An equality test counts only against
# a bound-like value (`len == D`), not against a literal: an index only ever tested as `prefix == 0`, or not at all, is unbounded.  Table: (count, reason) per function.
IDXCMP_TABLE = {
    'core::triangulation::Triangulation::collect_cell_points_for_orientation':
        (1, 'position from enumerate() over the D + 1 cell vertices, captured by the closure that indexes the D + 1 periodic offsets of the same cell'),
    'core::triangulation_data_structure::Tds::build_periodic_vertex_uuid_offsets':
        (1, 'position from enumerate() over the cell vertices, captured by the closure indexing the offsets of the same cell'),
    'core::triangulation_data_structure::Tds::facet_vertex_identities_in_cell_order':
        (1, 'position from enumerate() over the cell vertices, captured by the closure indexing the offsets of the same cell'),
    'core::util::facet_utils::generate_combinations':
        (1, 'indices[j] < n is the invariant of the combination enumeration (k <= n checked on entry)'),
    'core::util::hilbert::hilbert_index_from_quantized':
        (1, 'transposed[D - 1] on a [u32; D] array, D >= 1 checked on entry'),
    'core::builder::search_closed_2d_selection':
        (4, 'candidate positions from the permutation (0..m) being sorted and edge ids issued by the edge table built just above (ids < its length)'),
    'core::builder::search_closed_2d_selection::dfs':
        (9, 'order[pos] with pos < order.len() tested at the top of the recursion (an == test on a +1 depth parameter); edge ids as above'),
    'core::collections::spatial_hash_grid::HashGridIndex::visit_neighbor_cells':
        (2, 'axis is a +1 recursion parameter starting at 0 and the body returns on axis == D before indexing the [_; D] arrays'),
    'core::delaunay_triangulation::visit_quantized_neighbors':
        (2, 'axis is a +1 recursion parameter starting at 0 and the body returns on axis == D before indexing the [_; D] arrays'),
}
_IDX_ORDER = ('Lt', 'Le', 'Gt', 'Ge')
_IDX_BOUNDERS = ('::next', 'position', 'enumerate', '::min', 'clamp', 'rem_euclid', '::len', 'checked_rem')


def _idx_slice(b, local):
    seen, work, calls, ops = set(), [local], [], set()
    while work:
        l = work.pop()
        if l in seen:
            continue
        seen.add(l)
        for (_, idx, node) in b.defs.get(l, []):
            if idx == 'term':
                calls.append(node.resolved or node.callee or '')
                for o in node.args:
                    if o.place is not None:
                        work.append(o.place.local)
            else:
                rv = node.rv
                if 'op' in rv.raw:
                    ops.add(str(rv.raw['op']))
                for o in rv.ops:
                    if o.place is not None:
                        work.append(o.place.local)
                if rv.place is not None:
                    work.append(rv.place.local)
    return seen, calls, ops


def _idxcmp(ctx, cfg, prog, mod):
    ctx.rule('IDXCMP', 'a non-literal slice / array index is bounded by an order comparison, an iterator position, len / min / '
                       'clamp / remainder, or is in the reasoned table')
    total = 0
    bad = defaultdict(list)
    for q, b in sorted(prog.bodies.items()):
        if '::tests::' in q or not b.file.startswith('src/'):
            continue
        sites = []
        for blk in b.blocks:
            t = blk.term
            if t.k == 'assert' and (t.raw.get('m') or '').startswith('BoundsCheck'):
                mo = t.raw.get('mo', [])
                if len(mo) < 2 or mo[1][0] == 'k':
                    continue
                L = mo[1][1][0]
                d = b.single_def(L)
                if d is not None and d[1] != 'term' and d[2].rv.k == 'use' and d[2].rv.ops and d[2].rv.ops[0].kind == 'k':
                    continue
                sites.append((L, t.line))
        if not sites:
            continue
        cmp_ops = set()
        own = set()     # the comparisons the compiler emits for the bounds checks themselves
        for blk in b.blocks:
            t = blk.term
            if t.k == 'assert' and (t.raw.get('m') or '').startswith('BoundsCheck'):
                c = t.raw.get('c')
                if c and c[0] != 'k' and not c[1][1]:
                    own.add(c[1][0])
        for blk in b.blocks:
            for s_ in blk.stmts:
                if s_.kind != 'A' or s_.rv.k != 'bin' or (s_.place.is_local() and s_.place.local in own):
                    continue
                op_ = s_.rv.raw.get('op')
                # an equality test bounds an index only when it is against a bound-like value (the const dimension, a length,
                # another variable: `if len == D { return Err }` on a +1 counter), not against a literal (`prefix == 0`)
                eq_bound = op_ in ('Eq', 'Ne') and not any(o.kind == 'k' and o.int_value() is not None for o in s_.rv.ops)
                if op_ in _IDX_ORDER or eq_bound:
                    for o in s_.rv.ops:
                        if o.place is not None:
                            cmp_ops.add(o.place.local)
        cmp_named = None
        for L, line in sites:
            total += 1
            sl, calls, ops = _idx_slice(b, L)
            if (sl - {L}) & cmp_ops or 'Rem' in ops or any(k in c for c in calls for k in _IDX_BOUNDERS):
                continue
            if cmp_named is None:
                cmp_named = set()
                for c in cmp_ops:
                    cs, _, _ = _idx_slice(b, c)
                    cmp_named |= {x for x in cs if x in b.names}
            if {x for x in sl if x in b.names} & (cmp_named - ({L} if L not in b.names else set())):
                continue
            bad[b.root or q].append((line, b.file))
    ctx.floor('non-literal index sites enumerated', 100, total, cfg)
    for root, lst in sorted(bad.items()):
        ent = IDXCMP_TABLE.get(root)
        site = '%s:%d' % (lst[0][1], lst[0][0])
        if ent is None or len(lst) > ent[0]:
            ctx.ob('IDXCMP', root, cfg, False,
                   '%d index expression(s) at line(s) %s whose value is never order-compared, and does not come from an iterator '
                   'position / len / min / clamp / remainder%s: out-of-range values panic' % (
                       len(lst), [l for l, _ in lst][:5], '' if ent is None else ' (table classifies %d)' % ent[0]), site=site)
        else:
            ctx.ob('IDXCMP', root, cfg, True, '%d site(s) <= %d classified: %s' % (len(lst), ent[0], ent[1]), site=site)
    ctx.ob('IDXCMP', 'summary', cfg, True, '%d non-literal index sites, %d functions with sites outside the structural evidence' % (
        total, len(bad)))


# ------------------------------------------------------------------------------------------ IDXGUARD
HANDLE_ACCESSORS = ('FacetHandle::facet_index', 'RidgeHandle::', 'TriangleHandle::', 'EdgeKey::')


def _idxguard(ctx, cfg, prog, mod):
    """A slice / vector index that *is* the value of a caller-supplied handle accessor (FacetHandle::facet_index and
    its integer conversions) is a panic site for an out-of-range handle unless a range test on that value dominates
    the use.  Uses: MIR bounds-check asserts, and calls of std / smallvec methods that panic on a bad index."""
    ctx.rule('IDXGUARD', 'indexing (slice index, Vec/SmallVec remove / insert / swap_remove / split_off / swap) with a '
                         'caller-handle value is dominated by a range test on it')
    n = 0
    for q, b in sorted(prog.bodies.items()):
        if '::tests::' in q or not b.file.startswith('src/'):
            continue
        roots = set()
        for bb, t in b.calls():
            nm = t.resolved or t.callee or ''
            if any(a_ in nm for a_ in HANDLE_ACCESSORS) and t.dest is not None and t.dest.is_local():
                roots.add(t.dest.local)
        if not roots:
            continue
        carried = set(roots)
        changed = True
        while changed:
            changed = False
            for bb2 in b.blocks:
                for s_ in bb2.stmts:
                    if s_.kind == 'A' and s_.place.is_local() and s_.place.local not in carried and s_.rv.k in ('use', 'cast') and \
                            s_.rv.ops and s_.rv.ops[0].place is not None and s_.rv.ops[0].place.is_local() and \
                            s_.rv.ops[0].place.local in carried:
                        carried.add(s_.place.local)
                        changed = True
                t2 = bb2.term
                if t2.k == 'call' and t2.dest is not None and t2.dest.is_local() and t2.dest.local not in carried and \
                        (t2.callee or '').rsplit('::', 1)[-1] in ('from', 'into', 'try_from', 'unwrap', 'branch') and \
                        any(o.place is not None and o.place.is_local() and o.place.local in carried for o in t2.args):
                    carried.add(t2.dest.local)
                    changed = True
        uses = []      # (block, line, what)
        for blk in b.blocks:
            if blk.cleanup:
                continue
            t = blk.term
            if t.k == 'assert' and t.raw.get('m') == 'BoundsCheck':
                mo = t.raw.get('mo', [])
                if len(mo) >= 2 and mo[1][0] != 'k' and not mo[1][1][1] and mo[1][1][0] in carried:
                    uses.append((blk.idx, t.line, 'slice index'))
            if t.k == 'call':
                last = (t.callee or t.resolved or '').rsplit('::', 1)[-1]
                st = (t.func.const.get('selfty') or '') if t.func is not None and t.func.kind == 'k' else ''
                recv = b.locals[t.args[0].place.local] if t.args and t.args[0].place is not None else ''
                if last in PANICKY_INDEX_METHODS and any(k in (st + ' ' + recv + ' ' + (t.callee or '')) for k in ('Vec', 'SmallVec', 'VecDeque', '[', 'slice')) and \
                        any(o.place is not None and o.place.is_local() and o.place.local in carried for o in t.args[1:]):
                    uses.append((blk.idx, t.line, '%s()' % last))
        if not uses:
            continue
        cmp_locals = set()
        for bb2 in b.blocks:
            for s_ in bb2.stmts:
                if s_.kind == 'A' and s_.rv.k == 'bin' and s_.rv.raw.get('op') in ('Lt', 'Le', 'Gt', 'Ge') and s_.place.is_local() and \
                        any(o.place is not None and o.place.is_local() and o.place.local in carried for o in s_.rv.ops):
                    cmp_locals.add(s_.place.local)
        guards = [bb2.idx for bb2 in b.blocks if bb2.term.k == 'switch' and bb2.term.discr.place is not None and
                  bb2.term.discr.place.is_local() and bb2.term.discr.place.local in cmp_locals]
        some_edges = set()
        for gb, gt in b.calls():
            if (gt.callee or gt.resolved or '').rsplit('::', 1)[-1] in ('get', 'get_mut') and \
                    any(o.place is not None and o.place.is_local() and o.place.local in carried for o in gt.args[1:]):
                some_edges |= flow.call_flow(b, gb).ok_edges
        safe_reach = flow.reach_edges(b, [0], avoid_edges=some_edges) if some_edges else None
        for i, (ub, line, what) in enumerate(uses):
            n += 1
            ok = any(b.dominates(g, ub) for g in guards) or (safe_reach is not None and ub not in safe_reach)
            ctx.ob('IDXGUARD', '%s|use%d' % (b.root or q, i), cfg, ok,
                   '%s with a caller-handle value is %s by a range test' % (what, 'dominated' if ok else 'NOT dominated') +
                   ('' if ok else ': an out-of-range handle panics here'), site='%s:%d' % (b.file, line))
    ctx.floor('indexing uses of a caller-handle value', 1, n, cfg)


PANICKY_INDEX_METHODS = ('remove', 'swap_remove', 'insert', 'split_off', 'swap', 'index', 'index_mut', 'drain', 'split_at',
                         'split_at_mut', 'copy_within', 'rotate_left', 'rotate_right', 'truncate_front')


# ------------------------------------------------------------------------------------------ CALLBAN
def _callban(ctx, cfg, prog, mod):
    n = 0
    bad = []
    for q, b in prog.bodies.items():
        for bb, t in b.calls():
            name = t.resolved or t.callee or ''
            n += 1
            if name.endswith('Index>::index') or name.endswith('IndexMut>::index_mut') or \
                    name.endswith('::index') or name.endswith('::index_mut'):
                st = (t.func.const.get('selfty') or '') if t.func is not None and t.func.kind == 'k' else ''
                if any(m in st for m in ('SlotMap<', 'SecondaryMap<', 'slotmap::')) and 'Index' in name:
                    bad.append((q, t.line, b.file, st))
    for (q, line, file, st) in bad:
        ctx.ob('CALLBAN', '%s|slotmap-index' % (prog.bodies[q].root or q), cfg, False,
               'keyed indexing `%s[key]` at %s:%d panics on a stale or foreign key; use get()/get_mut()' % (st[:50], file, line),
               site='%s:%d' % (file, line))
    ctx.ob('CALLBAN', 'slotmap-index', cfg, not bad, 'call sites scanned: %d; keyed slot-map Index/IndexMut: %d' % (n, len(bad)))



# ------------------------------------------------------------------------------------------ RNGRANGE
def _width_gates(prog, mod, rb, root):
    """True edges of `is_finite` tests of a computed width in one body; lines of tests on a bare value."""
    import valueflow
    al = mod.aliases(root)
    gates = set()
    weak = []
    for bb, t in rb.calls():
        if (t.callee or t.resolved or '').rsplit('::', 1)[-1] != 'is_finite' or not t.args or t.args[0].place is None:
            continue
        lv_ = valueflow.sources(rb, al, t.args[0].place.local)
        calls = {(x[1].callee or x[1].resolved or '').rsplit('::', 1)[-1] for x in lv_ if x[0] == 'call'} - {'is_finite'}
        if calls & set(WIDTH_OPS):
            gates |= flow.call_flow(rb, bb).ok_edges
        else:
            weak.append(t.line)
    return gates, weak


RNG_SAMPLERS = ('random_range', 'gen_range', 'sample_single', 'sample_single_inclusive')
WIDTH_OPS = ('sub', 'add', 'mul', 'abs_sub')


def _rngrange(ctx, cfg, prog, mod):
    """RNGRANGE: rand's range samplers panic (they unwrap `Error::NonFinite` / `EmptyRange`) when `high - low` is not
    finite, which happens for *finite* bounds of extreme magnitude (-1.5e308 .. 1.5e308).  For every library function
    that samples from a range built from its own arguments: every path from entry to the sampling (the call, or the
    creation of the closure that makes it) passes the true edge of an `is_finite` test of a *computed width* (the
    tested value is produced by an arithmetic operation).  A range whose lower bound is the constant zero needs no test
    (its width is the upper bound).  Decided per root function; ranges made of constants only are not judged."""
    ctx.rule('RNGRANGE', 'range samplers are reached only behind a finiteness test of the range width')
    import valueflow
    per_root = {}
    for q, b in sorted(prog.bodies.items()):
        if '::tests::' in q or not b.file.startswith('src/'):
            continue
        for bb, t in b.calls():
            if (t.callee or t.resolved or '').rsplit('::', 1)[-1] in RNG_SAMPLERS and not b.blocks[bb].cleanup:
                per_root.setdefault(b.root or q, []).append((q, bb, t))
    n_roots = 0
    for root, sites in sorted(per_root.items()):
        rb = prog.bodies.get(root)
        if rb is None:
            continue
        al = mod.aliases(root)
        # does any range operand depend on the function's inputs?  (leaves of the Range value in its own body)
        var = False
        zero_start = True
        for (q, bb, t) in sites:
            b = prog.bodies[q]
            alq = mod.aliases(q)
            for o in t.args[1:]:
                if o.place is None:
                    continue
                lv_ = valueflow.sources(b, alq, o.place.local)
                if any(x[0] in ('param', 'place') for x in lv_):
                    var = True
                # the start of the range: a `zero()` call among the sources and exactly one input leaf
                calls = {(x[1].callee or x[1].resolved or '').rsplit('::', 1)[-1] for x in lv_ if x[0] == 'call'}
                if 'zero' not in calls:
                    zero_start = False
        if not var:
            continue
        n_roots += 1
        if zero_start:
            # `zero()..bound`: the width is the bound itself, finite whenever the caller's value is (the property
            # quantifies over finite input); emptiness (bound <= 0) is an EmptyRange question decided by nobody here
            ctx.ob('RNGRANGE', root, cfg, True, '%d range sampler call(s) on a zero-based range: width = upper bound, finite '
                   'for finite input' % len(sites), site='%s:%d' % (rb.file, rb.line))
            continue
        # blocks of the root in which sampling becomes possible
        use = set()
        for (q, bb, t) in sites:
            if q == root:
                use.add(bb)
                continue
            cq = q
            while prog.bodies[cq].parent not in (None, root) and prog.bodies[cq].parent in prog.bodies:
                cq = prog.bodies[cq].parent
            for blk in rb.blocks:
                for s_ in blk.stmts:
                    if s_.kind == 'A' and s_.rv.k == 'agg' and s_.rv.raw.get('ak') == 'closure' and s_.rv.raw.get('def') == cq:
                        use.add(blk.idx)
                t_ = blk.term
                if t_.k == 'call':
                    for o in t_.args:
                        if o.kind == 'k' and o.const and o.const.get('closure') == cq:
                            use.add(blk.idx)
        site = '%s:%d' % (rb.file, rb.line)
        if not use:
            ctx.ob('RNGRANGE', root, cfg, False, 'sampling closure is not created in the root function (unrecognised shape)', site=site)
            continue
        gates, weak = _width_gates(prog, mod, rb, root)
        # a crate helper that validates the range (`validate_range(min, max)?`): its success edge is a gate when
        # the helper itself cannot return success without its own finite-width edge
        import gate as _gate
        for bb, t in rb.calls():
            hq = t.resolved or t.callee
            hb = prog.bodies.get(hq)
            if hb is None or hb.kind == 'closure' or hq == root:
                continue
            hg, _w = _width_gates(prog, mod, hb, hq)
            if not hg:
                continue
            hreach = flow.reach_edges(hb, [0], avoid_edges=hg)
            if any(e['bb'] in hreach for e in _gate.success_exit_blocks(hb)):
                continue
            gates |= flow.call_flow(rb, bb).ok_edges
        # a validation loop over the components (`for period in domain { if .. !period.is_finite() { return Err } }`):
        # its iterator-exhausted edge is a passing edge when no iteration completes without the finite edge
        gblocks = {bb_ for (bb_, _d) in gates}
        gates |= _gate._checked_loop_exhaustion_edges(rb, flow.all_call_flows(rb), gblocks, gates)
        reach = flow.reach_edges(rb, [0], avoid_edges=gates)
        bad = sorted(use & reach)
        ctx.ob('RNGRANGE', root, cfg, not bad,
               '%d range sampler call(s); %d finite-width edge(s)%s; sampling %s' % (
                   len(sites), len(gates),
                   (' (is_finite on a bare bound at line(s) %s does not bound the width high - low)' % weak) if weak else '',
                   'only behind them' if not bad else
                   'reachable without a finiteness test of the width: for finite bounds of extreme magnitude (high - low '
                   'overflows) rand unwraps Error::NonFinite and panics'), site=site)
    ctx.floor('functions sampling from a caller-supplied range', 1, n_roots, cfg)


# ------------------------------------------------------------------------------------------ RANGEGUARD
def _rangeguard(ctx, cfg, prog, mod):
    """RANGEGUARD: `&v[..=D]`, `&v[a..b]` panic when the range leaves the collection (a library call, not a MIR
    bounds-check assert).  Every range index on a slice / Vec / SmallVec in the library whose bounds are not the full
    range is dominated by a branch on a comparison involving `len()` of the same collection, or takes its bound from
    that `len()` (or a `min` with it).  A length test on a *different* list (the raw input before de-duplication)
    does not count."""
    import valueflow
    ctx.rule('RANGEGUARD', 'range indexing of a collection is guarded by a length test on the same collection')
    n = 0
    for q, b in sorted(prog.bodies.items()):
        if '::tests::' in q or not b.file.startswith('src/'):
            continue
        al = None
        uses = None
        for bb, t in b.calls():
            name = t.callee or t.resolved or ''
            if name not in ('std::ops::Index::index', 'std::ops::IndexMut::index_mut') or len(t.args) < 2:
                continue
            ity = b.locals[t.args[1].place.local] if t.args[1].place is not None else ''
            if 'std::ops::Range' not in ity or 'RangeFull' in ity:
                continue
            al = al or mod.aliases(q)
            uses = uses or flow._collect_uses(b)
            n += 1
            tt = al.operand_target(t.args[0])
            root = tt[0] if tt is not None else (t.args[0].place.local if t.args[0].place is not None else None)

            def len_of_root(leaves):
                for x in leaves:
                    if x[0] == 'call' and (x[1].callee or x[1].resolved or '').rsplit('::', 1)[-1] in ('len', 'number_of_vertices') and x[1].args:
                        lt = al.operand_target(x[1].args[0])
                        lr = lt[0] if lt is not None else (x[1].args[0].place.local if x[1].args[0].place is not None else None)
                        if lr == root or root in {y[1] for y in valueflow.sources(b, al, lr) if y[0] == 'param'} and lr == root:
                            return True
                return False
            # (a) the bound itself comes from len() of the same collection
            bound_ok = t.args[1].place is not None and len_of_root(valueflow.sources(b, al, t.args[1].place.local))
            # (b) a dominating branch on a comparison involving len() of the same collection
            guard_blocks = set()
            for blk in b.blocks:
                if blk.cleanup or blk.term.k != 'switch' or blk.term.discr.place is None or not blk.term.discr.place.is_local():
                    continue
                if len_of_root(valueflow.sources(b, al, blk.term.discr.place.local)):
                    guard_blocks.add(blk.idx)
            reach = flow.reach_edges(b, [0], avoid_blocks=guard_blocks) if 0 not in guard_blocks else set()
            guarded = bb not in reach
            # (c) the bound is an iterator position (`for (idx, x) in v.iter().enumerate() { .. &v[..idx] .. }`): positions
            # handed out by an iterator over a slice never exceed its length
            pos_ok = False
            if not (bound_ok or guarded) and t.args[1].place is not None:
                leaves = valueflow.sources(b, al, t.args[1].place.local)
                names_ = [(x[1].callee or x[1].resolved or '') for x in leaves if x[0] == 'call']
                pos_ok = any('Enumerate' in n_ or n_.endswith('::position') or n_.endswith('::enumerate') for n_ in names_) and \
                    not any(n_.rsplit('::', 1)[-1] in ('add', 'checked_add', 'saturating_add', 'wrapping_add', 'mul') for n_ in names_)
            ok = bound_ok or guarded or pos_ok
            ctx.ob('RANGEGUARD', '%s|%s' % (b.root or q, ity.split('<')[0].rsplit('::', 1)[-1]), cfg, ok,
                   'range index (%s) %s' % (ity.split('<')[0].rsplit('::', 1)[-1],
                       'takes its bound from len() of the collection' if bound_ok else
                       'is dominated by a branch on len() of the same collection' if guarded else
                       'takes its bound from an iterator position' if pos_ok else
                       'is reachable without any test on the length of the collection it slices: a shorter list (e.g. after '
                       'de-duplication) panics with "range end index out of range"'), site='%s:%d' % (b.file, t.line))
    ctx.floor('range-indexing sites', 1, n, cfg)

# ------------------------------------------------------------------------------------------ ASSERTGATE
def _assertgate(ctx, cfg, prog, mod):
    """A helper that *asserts* hull freshness (debug_assert on the generation comparison) panics when
    it is handed a stale hull: every caller must have taken the fresh edge of the typed staleness
    check before calling it."""
    import c11
    ctx.rule('ASSERTGATE', 'helpers that assert hull freshness are called only behind the typed staleness check')
    gen_only = c11._generation_only(prog, mod)
    preds = {q for q in gen_only if prog.bodies[q].locals[0] == 'bool' and c11._eq_polarity(prog, q)}
    asserting = {}
    for q, b in prog.bodies.items():
        if b.kind == 'closure' or not q.startswith(c11.HULL + '::') or not c11._tri_params(b):
            continue
        edges, _ = c11._gate_edges(prog, mod, q, preds)
        if not edges:
            continue
        stale = {(sbb, s_) for (sbb, fresh) in edges for s_ in b.succs(sbb) if s_ != fresh}
        panics = [bb for bb, t in b.calls() if (t.resolved or t.callee or '').startswith('core::panicking')
                  and 'assert' in ' '.join(t.exp or [])]
        if not panics:
            continue
        reach = flow.reach_edges(b, [0], avoid_edges=stale)
        sp = [p for p in panics if p not in reach]
        if sp:
            asserting[q] = sp
    n = 0
    for fq in sorted(asserting):
        for gq in sorted(prog.callers.get(fq, ())):
            gb = prog.bodies.get(gq)
            if gb is None:
                continue
            calls = [bb for bb, t in gb.calls() if (t.resolved or t.callee) == fq]
            if not calls:
                continue
            n += 1
            gedges, gdescr = c11._gate_edges(prog, mod, gb.q, preds) if c11._tri_params(gb) else (set(), [])
            reach = flow.reach_edges(gb, [0], avoid_edges=gedges)
            bad = [bb for bb in calls if bb in reach]
            ctx.ob('ASSERTGATE', '%s|%s' % (gb.root or gq, fq.rsplit('::', 1)[-1]), cfg, not bad,
                   '%s asserts hull freshness (debug_assert); %s calls it %s' % (
                       fq.rsplit('::', 1)[-1], gq.rsplit('::', 1)[-1],
                       'only behind its own typed staleness check (%s)' % ', '.join(gdescr[:2]) if not bad else
                       'WITHOUT first taking the fresh edge of a typed staleness check: a stale hull panics in debug builds'),
                   site='%s:%d' % (gb.file, gb.line))
    ctx.ob('ASSERTGATE', 'scan', cfg, True, 'freshness-asserting helpers: %s; call sites examined: %d' % (
        sorted(a.rsplit('::', 1)[-1] for a in asserting), n))
    # no floor: a tree in which no helper asserts freshness any more (the assert replaced by the typed check) has nothing
    # to gate; the rule's ability to see such helpers is exercised by the seeded change C19-stale-hull-debug-assert (re-run by the thorough tier)


# ------------------------------------------------------------------------------------------ FINITE
def unguarded_set(prog, lv):
    """Least fixed point: bodies from which vertex storage is reachable along a path that does not
    first pass the success edge of a coordinate validation."""
    U = {INSV}
    why = {}
    changed = True
    while changed:
        changed = False
        for q, b in prog.bodies.items():
            if q in U:
                continue
            targets = []
            for bb, t in b.calls():
                if any(x in U for x in (t.resolved, t.callee) if x):
                    targets.append(bb)
            for blk in b.blocks:
                if blk.cleanup:
                    continue
                for s in blk.stmts:
                    if s.kind == 'A' and s.rv.k == 'agg' and s.rv.raw.get('ak') == 'closure' and s.rv.raw['def'] in U:
                        targets.append(blk.idx)
            if not targets:
                continue
            r = gate.must_pass(prog, lv, b, VALIDATORS, mode='any', targets=targets)
            if not r['ok']:
                U.add(q)
                why[q] = r
                changed = True
    return U, why


def _finite(ctx, cfg, prog, mod):
    lv = gate.Leaves(prog)
    U, why = unguarded_set(prog, lv)
    takes_vertex = 0
    for q, b in sorted(prog.bodies.items()):
        if b.kind == 'closure' or not b.exported:
            continue
        if INSV not in lv.reach_set(q):
            continue
        # functions that receive vertices from the caller
        if not any('core::vertex::Vertex<' in b.locals[i] for i in range(1, b.nargs + 1)):
            continue
        takes_vertex += 1
        ok = q not in U
        detail = 'storage reachable only behind a coordinate validation' if ok else (
            'Tds::insert_vertex_with_mapping is reachable from %s without first passing the success edge of '
            'Coordinate::validate / Vertex::is_valid: a NaN or infinite vertex can enter storage' % q)
        ctx.ob('FINITE', q, cfg, ok, detail, assumed=FINITE_TABLE.get(q), site='%s:%d' % (b.file, b.line))
    ctx.floor('exported functions that take vertices and reach vertex storage', 10, takes_vertex, cfg)
    ctx.info.setdefault('finite_unguarded_bodies', {})[cfg] = sorted(U)[:60]
