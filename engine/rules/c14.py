"""C14 — determinism (structural clauses).

 RNG      no unseeded random source (rand::rng / thread_rng / random / getrandom / OsRng) is
          reachable in the call graph from any constructor or from an exported `&mut` operation;
          seeded generators reachable from there are seeded only from values computed from the
          input (no banned source in the seed's backward slice);
 HASHITER no iteration over a collection with a randomly-seeded hasher (std RandomState) anywhere
          in those bodies;
 CLOCK    the value of Instant::now / SystemTime::now never flows into a return value, a crate
          function argument or stored state (only into elapsed-time logging);
 THREAD   no thread identity / thread-local beyond the recursion-depth counter is consulted;
 UUIDCMP  (information) sites where a random cell UUID reaches an ordering comparison are listed.
 ORDERKEY the three value-based ordering strategies (lexicographic, Morton, Hilbert) sort with a
          comparator whose result depends on the vertices' own coordinates (`Vertex::partial_cmp`)
          and in which the *input position* is compared only inside a `then_with` continuation that
          follows the coordinate comparison: the position decides only between vertices that are
          equal in every coordinate (a necessary condition for "the result does not depend on the
          order in which the caller listed the vertices").
 INDEXSRC positions computed on one vertex sequence are applied to the same sequence: the index vector handed to
          `reorder_vertices_for_simplex(seq, idx)` comes from `select_balanced_simplex_indices(seq)` on the *same*
          `seq` (positions taken from the caller's listing and applied to the ordered buffer make the initial
          simplex, hence the result, depend on the listing order).
Not decided: order-independence of the result as a whole, uniqueness of the Delaunay triangulation."""
from collections import defaultdict
import flow
import gate
import pair
import valueflow
from tables import DTQ

EXPLANATION = (
    "Call-graph reachability from roots = exported constructors (functions returning DelaunayTriangulation) and every "
    "exported &mut operation on Triangulation / DelaunayTriangulation, over resolved MIR callees (closures included). "
    "RNG / THREAD: banned callee families must not be reachable; every SeedableRng::seed_from_u64 reachable from the "
    "roots has a seed whose backward value slice contains no banned source. HASHITER: iteration calls whose receiver "
    "type is a std HashMap / HashSet with the default (RandomState) hasher. CLOCK: forward value slice of every "
    "Instant::now / SystemTime::now result. Result order-independence itself is a value-level claim and is not decided.")

BANNED_RNG = ('rand::rng', 'rand::thread_rng', 'rand::random', 'rand::rngs::ThreadRng', 'rand::rngs::OsRng',
              'getrandom::', 'rand::rngs::SysRng', 'rand::make_rng', 'std::hash::RandomState::new',
              'std::collections::hash_map::RandomState::new')
BANNED_THREAD = ('std::thread::current', 'std::thread::Thread::id', 'std::process::id')
CLOCKS = ('std::time::Instant::now', 'std::time::SystemTime::now')
ITER_NAMES = ('iter', 'keys', 'values', 'into_iter', 'drain', 'iter_mut', 'values_mut', 'into_keys', 'into_values', 'retain')
ALLOWED_TLS = ('HEURISTIC_REBUILD_DEPTH',)


def roots(prog, mod):
    res = pair.Resources(prog, mod)
    out = set()
    for q, b in prog.bodies.items():
        if b.kind == 'closure' or not b.exported:
            continue
        if 'DelaunayTriangulation<' in b.locals[0] and gate.is_pure(prog, q) and \
                (q.startswith(DTQ) or q.startswith('core::builder::')):
            out.add(q)
        for r in res.res.get(q, []):
            if r['mut'] and r['param'] is not None and pair.pointee_head(b.locals[r['param']])[0] in (pair.TRI, pair.DT):
                out.add(q)
    return out


def run(ctx):
    ctx.rule('RNG', 'no unseeded random source reachable from construction / mutation; seeds come from the input only')
    ctx.rule('HASHITER', 'no iteration over RandomState-hashed collections in those bodies')
    ctx.rule('CLOCK', 'clock values flow only into elapsed-time logging')
    ctx.rule('THREAD', 'no thread identity; only the recursion-depth thread-local')
    ctx.rule('ORDERKEY', 'value-based ordering strategies: input position is compared only after the full coordinate comparison')
    for cfg in ctx.cfgs:
        prog = ctx.prog(cfg)
        mod = ctx.mod(cfg)
        _orderkey(ctx, cfg, prog, mod)
        _indexsrc(ctx, cfg, prog, mod)
        _orderhash(ctx, cfg, prog, mod)
        _accumfold(ctx, cfg, prog, mod)
        _staticflow(ctx, cfg, prog, mod)
        _threadstate(ctx, cfg, prog)
        _epsorder(ctx, cfg, prog, mod)
        rts = roots(prog, mod)
        ctx.floor('determinism roots (constructors + exported &mut operations)', 30, len(rts), cfg)
        reach = prog.reachable_from(rts)
        ctx.info.setdefault('reachable_bodies', {})[cfg] = len(reach)
        ctx.floor('bodies reachable from the roots', 400, len(reach), cfg)
        n_calls = 0
        bad_rng, bad_thread, hashit, seeds, clocks, tls = [], [], [], [], [], []
        positive_control = 0
        for q in sorted(prog.bodies):
            b = prog.bodies[q]
            al = None
            inreach = q in reach
            for blk in b.blocks:
                if blk.cleanup:
                    continue
                for s in blk.stmts:
                    if s.kind == 'A' and s.rv.k == 'tls' and inreach:
                        tls.append((q, s.rv.raw['def'], s.line, b.file))
                t = blk.term
                if t.k != 'call':
                    continue
                name = t.resolved or t.callee or ''
                gname = t.callee or ''
                if any(name.startswith(x) or gname.startswith(x) for x in BANNED_RNG):
                    positive_control += 1     # the matcher does see such calls somewhere in the crate
                    if inreach:
                        bad_rng.append((q, name, t.line, b.file))
                if not inreach:
                    continue
                n_calls += 1
                if any(name.startswith(x) or gname.startswith(x) for x in BANNED_THREAD):
                    bad_thread.append((q, name, t.line, b.file))
                last = gname.rsplit('::', 1)[-1]
                st = (t.func.const.get('selfty') or '') if t.func is not None and t.func.kind == 'k' else ''
                if last in ITER_NAMES and ('HashMap<' in st or 'HashSet<' in st):
                    if _default_hasher(st):
                        hashit.append((q, st[:70], t.line, b.file))
                if gname.endswith('SeedableRng::seed_from_u64') or gname.endswith('SeedableRng::from_seed'):
                    seeds.append((q, blk.idx, t))
                if name in CLOCKS or gname in CLOCKS:
                    clocks.append((q, blk.idx, t))
        ctx.ob('RNG', 'unseeded-sources', cfg, not bad_rng,
               'calls scanned in reachable bodies: %d; unseeded sources reachable: %d; (control: %d such call(s) exist '
               'elsewhere in the crate, all unreachable from the roots)' % (n_calls, len(bad_rng), positive_control))
        for (q, name, line, file) in bad_rng:
            ctx.ob('RNG', '%s|%s' % (prog.bodies[q].root or q, name), cfg, False,
                   'unseeded random source %s is reachable from construction / mutation: results differ between runs' % name,
                   site='%s:%d' % (file, line))
        ctx.floor('RNG positive control (unseeded sources present somewhere in the crate)', 1, positive_control, cfg)
        for (q, name, line, file) in bad_thread:
            ctx.ob('THREAD', '%s|%s' % (prog.bodies[q].root or q, name), cfg, False,
                   'thread / process identity %s consulted on the construction / mutation path' % name, site='%s:%d' % (file, line))
        for (q, d, line, file) in tls:
            ok = any(a in d for a in ALLOWED_TLS)
            ctx.ob('THREAD', '%s|tls:%s' % (prog.bodies[q].root or q, d.rsplit('::', 1)[-1]), cfg, ok,
                   'thread-local %s read on the construction / mutation path%s' % (d, '' if ok else ': per-thread state can change results'),
                   site='%s:%d' % (file, line))
        ctx.ob('THREAD', 'scan', cfg, True, 'thread identity calls: %d; thread-locals touched: %d' % (len(bad_thread), len(tls)))
        for (q, st, line, file) in hashit:
            ctx.ob('HASHITER', '%s|%s' % (prog.bodies[q].root or q, st.split('<', 1)[0]), cfg, False,
                   'iteration over %s (RandomState hasher): order differs between processes' % st, site='%s:%d' % (file, line))
        ctx.ob('HASHITER', 'scan', cfg, True, 'RandomState-hashed iterations in reachable bodies: %d' % len(hashit))
        # seeds
        for (q, bb, t) in seeds:
            b = prog.bodies[q]
            al = mod.aliases(q)
            srcs = valueflow.sources(b, al, t.args[0].place.local) if t.args and t.args[0].place is not None else []
            tainted = [l for l in srcs if l[0] == 'call' and _is_nondet(l[1])]
            ctx.ob('RNG', '%s|seed' % (b.root or q), cfg, not tainted,
                   'seed of %s derives from %s' % ((t.callee or '').rsplit('::', 1)[-1],
                                                   'input-derived values only' if not tainted else
                                                   'a nondeterministic source: ' + (tainted[0][1].resolved or tainted[0][1].callee or '?')),
                   site='%s:%d' % (b.file, t.line))
        ctx.floor('seeded RNG constructions on the construction path', 2, len(seeds), cfg)
        # clocks
        for (q, bb, t) in clocks:
            b = prog.bodies[q]
            leak = _clock_leak(prog, b, t)
            ctx.ob('CLOCK', '%s|%s' % (b.root or q, (t.resolved or t.callee).rsplit('::', 2)[-2]), cfg, leak is None,
                   'clock value used only for elapsed-time logging' if leak is None else 'clock value flows into ' + leak,
                   site='%s:%d' % (b.file, t.line))
        if cfg == ctx.cfgs[0]:
            ctx.sample({'rule': 'RNG', 'roots': len(rts), 'reachable_bodies': len(reach), 'seed_sites': len(seeds),
                        'clock_sites': len(clocks)})
    return ctx.finish(EXPLANATION)


def _default_hasher(st):
    """std HashMap / HashSet type string without an explicit non-default hasher argument."""
    if 'RandomState' in st:
        return True
    # count top-level generic arguments of the outermost HashMap< / HashSet<
    for head, need in (('HashMap<', 3), ('HashSet<', 2)):
        i = st.find(head)
        if i < 0:
            continue
        j = i + len(head)
        depth = 1
        args = 1
        while j < len(st) and depth > 0:
            c = st[j]
            if c == '<':
                depth += 1
            elif c == '>':
                depth -= 1
            elif c == ',' and depth == 1:
                args += 1
            j += 1
        return args < need
    return False


def _is_nondet(t):
    n = (t.resolved or t.callee or '')
    g = t.callee or ''
    return any(n.startswith(x) or g.startswith(x) for x in BANNED_RNG + BANNED_THREAD + CLOCKS) or \
        n.endswith('Uuid::new_v4')


def _only_logging(cb):
    """A closure all of whose calls sit inside logging / formatting macro expansions."""
    for bb, t in cb.calls():
        exp = ' '.join(t.exp or [])
        if not any(x in exp for x in ('tracing', 'debug!', 'warn!', 'info!', 'trace!', 'error!', 'event!', 'println', 'format')):
            name = t.resolved or t.callee or ''
            if name.rsplit('::', 1)[-1] in ('elapsed', 'as_secs_f64', 'as_millis', 'as_micros', 'as_nanos', 'fmt', 'deref'):
                continue
            return False
    return True


def _clock_leak(prog, b, t):
    """Forward slice of the clock value; returns a description of the first non-logging sink."""
    if t.dest is None or not t.dest.is_local():
        return 'a non-local place'
    uses = flow._collect_uses(b)
    seen = {t.dest.local}
    work = [t.dest.local]
    while work:
        l = work.pop()
        for (ubb, _, node, how) in uses.get(l, []):
            if how == 'stmt':
                if node.rv.k == 'agg' and node.rv.raw.get('ak') == 'closure':
                    # captured by a closure: follow into the closure only if it is not a logging closure
                    cq = node.rv.raw['def']
                    cb = prog.bodies.get(cq)
                    if cb is not None and _only_logging(cb):
                        continue
                    return 'a closure (%s)' % cq
                if node.place.is_local():
                    if node.place.local == 0:
                        return 'the return value'
                    if node.place.local not in seen:
                        seen.add(node.place.local)
                        work.append(node.place.local)
                else:
                    return 'stored state (%r)' % node.place
            elif how == 'callarg':
                name = node.resolved or node.callee or ''
                exp = ' '.join(node.exp or [])
                if any(x in exp for x in ('tracing', 'debug!', 'warn!', 'info!', 'trace!', 'error!', 'event!', 'println', 'format')):
                    continue      # inside a logging / formatting macro expansion
                if name in prog.bodies:
                    return 'an argument of %s' % name
                last = name.rsplit('::', 1)[-1]
                if node.dest is not None and node.dest.is_local() and node.dest.local not in seen:
                    if node.dest.local == 0:
                        return 'the return value'
                    # elapsed(), as_secs_f64(), Debug formatting, tracing field values ...
                    seen.add(node.dest.local)
                    work.append(node.dest.local)
            elif how == 'switch':
                return 'a branch condition'
    return None


# ------------------------------------------------------------------------------------------ ORDERKEY
ORDER_FNS = ['core::delaunay_triangulation::order_vertices_lexicographic',
             'core::delaunay_triangulation::order_vertices_morton',
             'core::delaunay_triangulation::order_vertices_hilbert']
SORTS = ('sort_by', 'sort_unstable_by', 'sort_by_key', 'sort_unstable_by_key', 'sort_by_cached_key', 'sort', 'sort_unstable')
VCMP = '<core::vertex::Vertex as std::cmp::PartialOrd<core::vertex::Vertex>>::partial_cmp'
POSCMP = '<usize as std::cmp::Ord>::cmp'


def _fam(prog, q):
    out = [q]
    for c in prog.children.get(q, []):
        out += _fam(prog, c)
    return out


def _calls_in(prog, q, name):
    return [(bb, t) for bb, t in prog.bodies[q].calls() if (t.resolved or t.callee) == name]


def _closure_args(body, t):
    """Closures (or plain fn items) handed to a call."""
    out = []
    for o in t.args:
        if o.kind == 'k' and o.const and 'closure' in o.const:
            out.append(o.const['closure'])
        elif o.kind == 'k' and o.const and 'fn' in o.const:
            out.append(o.const['fn'])
        elif o.place is not None and o.place.is_local():
            d = body.single_def(o.place.local)
            if d is not None and d[1] != 'term' and d[2].rv.k == 'agg' and d[2].rv.raw.get('ak') == 'closure':
                out.append(d[2].rv.raw['def'])
    return out


def _orderkey(ctx, cfg, prog, mod):
    n = 0
    for fq in ORDER_FNS:
        b = ctx.anchor(cfg, fq)
        if b is None:
            continue
        site = '%s:%d' % (b.file, b.line)
        sorts = [(bb, t) for bb, t in b.calls() if (t.callee or t.resolved or '').rsplit('::', 1)[-1] in SORTS]
        if not sorts:
            ctx.ob('ORDERKEY', fq, cfg, False, 'no sort call found in the ordering function', site=site)
            continue
        for bb, t in sorts:
            n += 1
            last = (t.callee or t.resolved or '').rsplit('::', 1)[-1]
            cmps = _closure_args(b, t)
            if last not in ('sort_by', 'sort_unstable_by') or not cmps:
                ctx.ob('ORDERKEY', fq, cfg, False, 'sort call %s without a comparator closure: the key shape is not recognised' % last, site=site)
                continue
            cq = cmps[0]
            if cq not in prog.bodies:
                ctx.ob('ORDERKEY', fq, cfg, False, 'comparator %s is not a function of this crate' % cq, site=site)
                continue
            cb = prog.bodies[cq]
            fam = _fam(prog, cq)
            has_v = [q for q in fam if _calls_in(prog, q, VCMP)]
            pos_direct = _calls_in(prog, cq, POSCMP)
            pos_closures = [q for q in fam if q != cq and _calls_in(prog, q, POSCMP)]
            ok = bool(has_v) and not pos_direct
            why = []
            if not has_v:
                why.append('the comparator never compares the vertices themselves (Vertex::partial_cmp): ties of the primary key '
                           'are broken by something that is not a function of the vertex values')
            if pos_direct:
                why.append('the input position is compared in the comparator body itself, not in a then_with continuation')
            # every position comparison sits in a closure handed to a then_with whose receiver already
            # contains the coordinate comparison
            al = mod.aliases(cq)
            for pq in pos_closures:
                host = prog.bodies[pq].parent
                hb = prog.bodies.get(host)
                placed = False
                if hb is not None:
                    hal = mod.aliases(host)
                    for tb, tt in hb.calls():
                        if not (tt.resolved or tt.callee or '').endswith('Ordering::then_with'):
                            continue
                        if pq not in _closure_args(hb, tt) or not tt.args or tt.args[0].place is None:
                            continue
                        leaves = valueflow.sources(hb, hal, tt.args[0].place.local)
                        seen_v = False
                        for l in leaves:
                            if l[0] == 'call' and (l[1].resolved or l[1].callee) == VCMP:
                                seen_v = True
                            if l[0] == 'call' and (l[1].resolved or l[1].callee or '').endswith('Ordering::then_with'):
                                for c2 in _closure_args(hb, l[1]):
                                    if any(_calls_in(prog, x, VCMP) for x in _fam(prog, c2)):
                                        seen_v = True
                        placed = placed or seen_v
                if not placed:
                    ok = False
                    why.append('the position comparison in %s does not follow the coordinate comparison' % pq.rsplit('::', 2)[-1])
            ctx.ob('ORDERKEY', fq, cfg, ok,
                   '; '.join(why) if why else 'comparator %s: coordinate comparison present; position compared only in a then_with '
                   'continuation after it (%d site(s))' % (cq.rsplit('::', 1)[-1], len(pos_closures)), site=site)
            # TIEID: two inputs with equal coordinates but different identity (UUID / data) tie on the coordinate comparison;
            # if the input position then decides, which of them is inserted first - and survives the duplicate check -
            # depends on the listing.  A comparison of the vertices' UUIDs must take part in the comparator.
            if pos_direct or pos_closures:
                ident = False
                for x in fam:
                    for _, ct in prog.bodies[x].calls():
                        nm = (ct.resolved or ct.callee or '')
                        if nm.endswith('Vertex::uuid') or ('uuid::Uuid' in nm and nm.rsplit('::', 1)[-1] in ('cmp', 'partial_cmp', 'lt', 'eq')):
                            ident = True
                ctx.ob('ORDERKEY', fq + '|tie-identity', cfg, ident,
                       'ties of the coordinate comparison %s' % (
                           'are broken by the vertices\' UUIDs before the input position' if ident else
                           'are broken by the input position only: of two inputs with equal coordinates and different UUID / data, '
                           'the one the caller listed first is inserted and the other skipped - the surviving vertex depends on '
                           'the listing order'), site=site)
    ctx.floor('sort calls in the value-based ordering strategies', 3, n, cfg)


# ------------------------------------------------------------------------------------------ INDEXSRC
SELECT = 'core::delaunay_triangulation::select_balanced_simplex_indices'
REORDER = 'core::delaunay_triangulation::reorder_vertices_for_simplex'


def _indexsrc(ctx, cfg, prog, mod):
    ctx.rule('INDEXSRC', 'simplex positions are computed on the sequence they are applied to')
    ctx.anchor(cfg, SELECT)
    ctx.anchor(cfg, REORDER)
    n = 0
    for q, b in sorted(prog.bodies.items()):
        al = None
        for bb, t in b.calls():
            if (t.resolved or t.callee) != REORDER or len(t.args) < 2:
                continue
            al = al or mod.aliases(q)
            n += 1
            seq_t = al.operand_target(t.args[0])
            sel = []
            if t.args[1].place is not None:
                tt = al.operand_target(t.args[1])
                for rl in [t.args[1].place.local] + ([tt[0]] if tt is not None else []):
                    for leaf in valueflow.sources(b, al, rl):
                        if leaf[0] == 'call' and (leaf[1].resolved or leaf[1].callee) == SELECT and leaf[1].args:
                            sel.append(al.operand_target(leaf[1].args[0]))
            # in a closure the index vector is the closure argument: look at the caller of the combinator
            where = b
            if not sel and b.kind == 'closure' and b.parent in prog.bodies:
                pb = prog.bodies[b.parent]
                pal = mod.aliases(b.parent)
                for pbb, pt in pb.calls():
                    if (pt.resolved or pt.callee) == SELECT and pt.args:
                        sel.append(('parent', pal.operand_target(pt.args[0])))
            ok, why = False, 'the index vector does not come from select_balanced_simplex_indices'
            if sel:
                same = []
                for sx in sel:
                    if isinstance(sx, tuple) and sx and sx[0] == 'parent':
                        # compare through the capture: the closure's sequence argument is a captured reference to a parent local
                        st = sx[1]
                        cap = None
                        if seq_t is not None and seq_t[0] == 1 and seq_t[1] and str(seq_t[1][0]).startswith('^'):
                            cap = seq_t[1][0]
                        pseq = None
                        if cap is not None:
                            for blk in prog.bodies[b.parent].blocks:
                                for s_ in blk.stmts:
                                    if s_.kind == 'A' and s_.rv.k == 'agg' and s_.rv.raw.get('ak') == 'closure' and s_.rv.raw['def'] == q:
                                        fl = s_.rv.raw.get('fields', [])
                                        nm = cap[1:]
                                        if nm in fl:
                                            pseq = mod.aliases(b.parent).operand_target(s_.rv.ops[fl.index(nm)])
                        same.append(pseq is not None and st is not None and pseq[0] == st[0] and tuple(pseq[1]) == tuple(st[1]))
                    else:
                        same.append(sx is not None and seq_t is not None and sx[0] == seq_t[0] and tuple(sx[1]) == tuple(seq_t[1]))
                ok = all(same)
                why = 'positions are computed on the sequence they reorder' if ok else \
                    'select_balanced_simplex_indices reads a different sequence than the one reorder_vertices_for_simplex permutes: ' \
                    'positions of the caller\'s listing applied to the ordered buffer make the initial simplex listing-dependent'
            ctx.ob('INDEXSRC', b.root or q, cfg, ok, why, site='%s:%d' % (b.file, t.line))
    ctx.floor('reorder_vertices_for_simplex call sites', 1, n, cfg)


VERTEX_TYS = ('core::vertex::Vertex<',)


def _is_vertex_elem(ty):
    ty = ty.replace('&mut ', '').replace('&', '').strip()
    return ty.startswith(VERTEX_TYS)


def _is_vertex_seq(ty):
    ty = ty.replace('&mut ', '').replace('&', '').strip()
    return (ty.startswith('[') or ty.startswith('std::vec::Vec<') or ty.startswith('smallvec::SmallVec<')) and \
        any(v in ty for v in VERTEX_TYS)


def _orderhash(ctx, cfg, prog, mod):
    """ORDERHASH: a value computed from the vertex *set* (shuffle seed, rebuild seed) must not depend on the order in
    which the vertices are listed.  Feeding vertices one after the other into one hasher state does: so wherever a
    `Vertex` is hashed inside a loop, the hasher is created inside that loop (a per-element hash, to be combined
    canonically - see the sort requirement below), or the iterated sequence has a sort in its content slice; a whole
    slice / Vec of vertices is never hashed at once unless sorted; and every `stable_hash_u64_slice` over per-vertex
    hashes outside the flip code is over a sorted buffer."""
    import loops
    ctx.rule('ORDERHASH', 'hashes over the vertex set are combined independently of the listing order')
    n = 0

    def sorted_content(b, al, local):
        tt = None
        leaves, _ = valueflow.content_sources(b, al, local)
        for l in leaves:
            if l[0] == 'call':
                last = (l[1].callee or l[1].resolved or '').rsplit('::', 1)[-1]
                if last.startswith('sort'):
                    return True
        return False

    for q, b in sorted(prog.bodies.items()):
        if '::tests::' in q or not b.file.startswith('src/'):
            continue
        al = None
        lps = None
        for bb, t in b.calls():
            name = t.callee or t.resolved or ''
            last = name.rsplit('::', 1)[-1]
            site = '%s:%d' % (b.file, t.line)
            if name.endswith('::stable_hash_u64_slice') and not q.startswith('core::algorithms::flips::') and \
                    t.args and t.args[0].place is not None:
                al = al or mod.aliases(q)
                n += 1
                tt = al.operand_target(t.args[0])
                roots_ = [t.args[0].place.local] + ([tt[0]] if tt is not None else [])
                ok = any(sorted_content(b, al, r) for r in roots_) or any(1 <= r <= b.nargs for r in roots_)
                ctx.ob('ORDERHASH', '%s|stable_hash' % (b.root or q), cfg, ok,
                       'buffer handed to stable_hash_u64_slice %s' % (
                           'is sorted (or a parameter, judged at the caller)' if ok else
                           'has no sort in its content slice: the combined hash depends on the order in which the elements '
                           'were produced (the caller\'s listing order)'), site=site)
                continue
            if last != 'hash' or len(t.args) < 2 or t.args[0].place is None or t.args[1].place is None:
                continue
            a0 = b.locals[t.args[0].place.local]
            if _is_vertex_seq(a0):
                al = al or mod.aliases(q)
                n += 1
                tt = al.operand_target(t.args[0])
                roots_ = [t.args[0].place.local] + ([tt[0]] if tt is not None else [])
                ok = any(sorted_content(b, al, r) for r in roots_)
                ctx.ob('ORDERHASH', '%s|slice' % (b.root or q), cfg, ok,
                       'a whole vertex sequence is hashed at once; %s' % ('it is sorted first' if ok else
                       'nothing sorts it: the hash depends on the listing order'), site=site)
                continue
            if not _is_vertex_elem(a0):
                continue
            lps = lps if lps is not None else loops.natural_loops(b)
            inl = [(h, nodes) for h, nodes in lps.items() if bb in nodes]
            if not inl:
                continue
            al = al or mod.aliases(q)
            n += 1
            ht = al.operand_target(t.args[1])
            hroot = ht[0] if ht is not None else t.args[1].place.local
            hdefs = {d[0] for d in b.defs.get(hroot, [])}
            # innermost loop containing the call
            h, nodes = min(inl, key=lambda x: len(x[1]))
            per_elem = bool(hdefs & nodes)
            seq_sorted = False
            if not per_elem:
                for nb in nodes:
                    nt = b.blocks[nb].term
                    if nt.k == 'call' and (nt.callee or nt.resolved or '').rsplit('::', 1)[-1] == 'next' and nt.args and \
                            nt.args[0].place is not None:
                        it = al.operand_target(nt.args[0])
                        for r in [nt.args[0].place.local] + ([it[0]] if it is not None else []):
                            if sorted_content(b, al, r):
                                seq_sorted = True
            ok = per_elem or seq_sorted
            ctx.ob('ORDERHASH', '%s|loop' % (b.root or q), cfg, ok,
                   'vertices are hashed in a loop with %s' % (
                       'a hasher created per element' if per_elem else 'one hasher over a sorted sequence' if seq_sorted else
                       'ONE hasher state carried across the iterations of an unsorted sequence: the result depends on the order '
                       'in which the caller listed the vertices (seeds derived from it make the shuffled-retry / rebuild path '
                       'order-dependent under the Hilbert / Morton / lexicographic orderings)'), site=site)
    ctx.floor('hash computations over the vertex set', 1, n, cfg)


FOLD_CALLS = ('min', 'max', 'minimum', 'maximum', 'fmin', 'fmax')


def _accumfold(ctx, cfg, prog, mod):
    """ACCUMFOLD: the value-based ordering strategies normalise coordinates with bounds folded over *all* coordinates of
    *all* vertices; the bounds must not depend on the order in which the vertices are scanned.  For every scalar
    accumulator of an ordering function (a float local initialised before a loop, updated inside it): each update is a
    commutative fold call (`a = a.min(c)` / `max`) or a conditional assignment whose controlling comparisons mention
    no *other* accumulator (`if c < min {..} else if c > max {..}` skips the `max` update for an element that was a new
    minimum - wrong exactly when the first-listed element holds the maximum)."""
    import loops
    ctx.rule('ACCUMFOLD', 'normalisation bounds of the ordering strategies are folded independently of the scan order')
    n = 0
    for q, b in sorted(prog.bodies.items()):
        last = q.rsplit('::', 1)[-1]
        if b.kind == 'closure' or not last.startswith('order_vertices_') or '::tests::' in q:
            continue
        lps = loops.natural_loops(b)
        if not lps:
            continue
        in_loop = set().union(*lps.values())
        floaty = lambda ty: ty in ('f64', 'f32') or (ty.isidentifier() and len(ty) <= 2 and ty[0].isupper())
        # accumulators: float locals defined both outside and inside a loop
        accs = {}
        for l, ty in enumerate(b.locals):
            if l <= b.nargs or not floaty(ty):
                continue
            dblocks = [d[0] for d in b.defs.get(l, [])]
            if any(x in in_loop for x in dblocks) and any(x not in in_loop for x in dblocks) and b.names.get(l):
                accs[l] = b.names.get(l)
        if not accs:
            continue

        def copies_of(l):
            out = {l}
            for blk in b.blocks:
                for s_ in blk.stmts:
                    if s_.kind == 'A' and s_.rv.k == 'use' and s_.rv.ops and s_.rv.ops[0].place is not None and \
                            s_.rv.ops[0].place.is_local() and s_.rv.ops[0].place.local == l and s_.place.is_local() and \
                            s_.place.local not in accs:
                        out.add(s_.place.local)
            return out
        acc_copies = {a: copies_of(a) for a in accs}
        for a, name in sorted(accs.items()):
            for (dbb, didx, node) in b.defs.get(a, []):
                if dbb not in in_loop:
                    continue
                n += 1
                site = '%s:%d' % (b.file, node.line if hasattr(node, 'line') else b.line)
                if didx == 'term':
                    lastc = (node.callee or node.resolved or '').rsplit('::', 1)[-1]
                    ok = lastc in FOLD_CALLS and any(o.place is not None and o.place.local in acc_copies[a] for o in node.args)
                    ctx.ob('ACCUMFOLD', '%s|%s' % (q, name), cfg, ok,
                           'accumulator `%s` updated by %s()' % (name, lastc) + ('' if ok else ': not a commutative fold of itself'), site=site)
                    continue
                # conditional assignment: switches inside the loop that decide whether this block runs
                h = [hh for hh, nodes in lps.items() if dbb in nodes]
                nodes = min((lps[hh] for hh in h), key=len)
                hdr = [hh for hh in h if lps[hh] is nodes][0] if any(lps[hh] is nodes for hh in h) else h[0]
                bad = []
                for sb in sorted(nodes):
                    t = b.blocks[sb].term
                    if t.k != 'switch' or t.discr.place is None or not t.discr.place.is_local():
                        continue
                    succs = [x for x in b.succs(sb) if x in nodes]
                    if len(succs) < 2:
                        continue
                    reach = [dbb in flow.reach_edges(b, [x], avoid_blocks={hdr}) or x == dbb for x in succs]
                    if all(reach) or not any(reach):
                        continue
                    d = b.single_def(t.discr.place.local)
                    if d is None or d[1] == 'term' or d[2].rv.k != 'bin':
                        continue
                    for o in d[2].rv.ops:
                        if o.place is None:
                            continue
                        for a2, cps in acc_copies.items():
                            if a2 != a and o.place.local in cps:
                                bad.append(accs[a2])
                ok = not bad
                ctx.ob('ACCUMFOLD', '%s|%s' % (q, name), cfg, ok,
                       'accumulator `%s` is assigned conditionally; %s' % (name, 'the deciding comparisons mention only itself' if ok else
                       'whether the update runs also depends on a comparison with the other accumulator(s) %s: an element that updates '
                       'one bound is never considered for the other, so the bounds - and with them the quantised order - depend '
                       'on which vertex is listed first' % sorted(set(bad))), site=site)
    ctx.floor('accumulator updates in the ordering strategies', 2, n, cfg)


STATIC_READS = ('load', 'fetch_add', 'fetch_sub', 'swap', 'compare_exchange', 'compare_exchange_weak', 'fetch_max', 'fetch_min',
                'fetch_update', 'fetch_or', 'fetch_and', 'get', 'get_or_init', 'lock', 'read', 'with')
STATIC_TABLE = {
    'core::algorithms::flips::should_emit_ridge_debug': 'rate limit of one debug log line (its only caller logs or does not log)',
    'core::algorithms::locate::conflict_debug_config': 'debug-logging switches read once from the environment; consulted only around tracing calls',
}


# functions that may touch thread-local state, with the reason
THREADSTATE_TABLE = {
    'core::delaunay_triangulation::HeuristicRebuildRecursionGuard::enter':
        'recursion guard of the heuristic rebuild: depth counter incremented on entry and restored by Drop (scoped, RAII)',
    'core::delaunay_triangulation::HeuristicRebuildRecursionGuard::in_progress':
        'reads the depth counter of the recursion guard: true only inside a rebuild that is running on this thread',
    '<core::delaunay_triangulation::HeuristicRebuildRecursionGuard as std::ops::Drop>::drop':
        'restores the depth counter saved by enter()',
}


def _threadstate(ctx, cfg, prog):
    """THREADSTATE (who-may-call): thread-local storage outlives a construction and differs between threads, and a
    `thread_local!` / `static` inside a generic function is ONE item for all its instantiations (a table cached for the
    first dimension used on a thread is served to every later dimension).  Only the scoped recursion guard may call
    `LocalKey::with` / `try_with` / `set` / `get` / `take` / `replace`."""
    ctx.rule('THREADSTATE', 'thread-local state is touched only by the scoped recursion guard of the heuristic rebuild')
    n = 0
    by_root = defaultdict(list)
    for q, b in sorted(prog.bodies.items()):
        if '::tests::' in q or not b.file.startswith('src/'):
            continue
        for bb, t in b.calls():
            name = t.callee or t.resolved or ''
            if 'thread::LocalKey' in name or 'thread::local::LocalKey' in name:
                by_root[b.root or q].append((t.line, b.file, name.rsplit('::', 1)[-1]))
    for root, lst in sorted(by_root.items()):
        n += len(lst)
        why = THREADSTATE_TABLE.get(root)
        ctx.ob('THREADSTATE', root, cfg, why is not None,
               '%d access(es) to thread-local state (%s): %s' % (len(lst), sorted({x[2] for x in lst}), why) if why else
               '%d access(es) to thread-local state (%s) at line(s) %s outside the recursion guard: state that survives from one '
               'construction to the next on the same thread (and is shared by every instantiation of a generic function) can '
               'change what the same input produces' % (len(lst), sorted({x[2] for x in lst}), [x[0] for x in lst][:4]),
               site='%s:%d' % (lst[0][1], lst[0][0]))
    ctx.floor('thread-local accesses of the recursion guard', 2, n, cfg)


PREPROCESS = 'core::delaunay_triangulation::DelaunayTriangulation::preprocess_vertices_for_construction'


def _variant_index(prog, adt, name):
    """Discriminant of variant `name` of a field-less crate enum, read off its derived Debug impl (the arm of the
    discriminant switch that loads the string constant `name`)."""
    q = '<%s as std::fmt::Debug>::fmt' % adt
    b = prog.bodies.get(q)
    if b is None:
        return None
    for blk in b.blocks:
        t = blk.term
        if t.k != 'switch':
            continue
        for v, tg in t.values:
            for s_ in b.blocks[tg].stmts:
                if s_.kind == 'A' and s_.rv.k == 'use' and s_.rv.ops and s_.rv.ops[0].kind == 'k' and \
                        str(s_.rv.ops[0].const.get('v', '')).strip('"') == name:
                    return v
    return None


def _epsorder(ctx, cfg, prog, mod):
    """EPSORDER (after fix F27): the epsilon de-duplication passes keep the first vertex they visit of a group of
    near-duplicates, so under a value-based insertion order their input must already be in a listing-independent order.
    In `preprocess_vertices_for_construction`, for each `dedup_vertices_epsilon_*` call: (a) the vertex vector has an
    `order_vertices_*` call in its backward slice; (b) every definition of that vector that is NOT the result of such a call
    (the caller's listing, `to_vec()`) lies on an arm of the switch on the insertion order that only the `Input` variant
    reaches."""
    ctx.rule('EPSORDER', 'the epsilon de-duplication is fed the caller\'s listing only under InsertionOrderStrategy::Input')
    b = ctx.anchor(cfg, PREPROCESS)
    if b is None:
        return
    al = mod.aliases(PREPROCESS)
    ADT = 'core::delaunay_triangulation::InsertionOrderStrategy'
    input_idx = _variant_index(prog, ADT, 'Input')
    # the switch on the discriminant of the insertion-order parameter
    order_param = next((i for i in range(1, b.nargs + 1) if b.locals[i] == ADT), None)
    arms = {}
    if order_param is not None:
        for blk in b.blocks:
            for s_ in blk.stmts:
                if s_.kind == 'A' and s_.rv.k == 'discr' and s_.rv.place is not None and s_.rv.place.local == order_param and s_.place.is_local():
                    t = blk.term
                    if t.k == 'switch' and t.discr.place is not None and t.discr.place.local == s_.place.local:
                        listed = {v: tg for v, tg in t.values}
                        arms[blk.idx] = (listed, t.otherwise)
    n = 0
    for bb, t in b.calls():
        name = t.resolved or t.callee or ''
        if 'dedup_vertices_epsilon' not in name or not t.args or t.args[0].place is None:
            continue
        n += 1
        short = name.rsplit('::', 1)[-1]
        leaves = valueflow.sources(b, al, t.args[0].place.local)
        ordered = sorted({(l[1].resolved or l[1].callee).rsplit('::', 1)[-1] for l in leaves if l[0] == 'call' and
                          'order_vertices' in (l[1].resolved or l[1].callee or '')})
        site = '%s:%d' % (b.file, t.line)
        if not ordered:
            ctx.ob('EPSORDER', '%s|%s' % (PREPROCESS, short), cfg, False,
                   'input of %s is the caller\'s listing: the first-visited survivor of a group of near-duplicates depends on the '
                   'order in which the caller listed them, also under Lexicographic / Morton / Hilbert ordering' % short, site=site)
            continue
        # (b) unordered definitions (to_vec of the parameter slice) reached by a non-Input variant
        raw_blocks = [l[2] for l in leaves if l[0] == 'call' and (l[1].resolved or l[1].callee or '').endswith('to_vec')
                      and not any('order_vertices' in ((t2.resolved or t2.callee or '')) and l[1].dest is not None and
                                  any(o.place is not None and o.place.local == l[1].dest.local for o in t2.args)
                                  for _, t2 in b.calls())]
        bad = []
        if input_idx is None or not arms:
            ctx.ob('EPSORDER', '%s|%s|arms' % (PREPROCESS, short), cfg, False,
                   'the switch on the insertion order / the discriminant of `Input` was not found: the rule cannot tell which arm '
                   'hands over the caller\'s listing (fail closed)', site=site)
            continue
        for rb in raw_blocks:
            for sw, (listed, otherwise) in arms.items():
                targets = dict(listed)
                all_idx = set(listed) | {'otherwise'}
                for v, tg in list(listed.items()) + [('otherwise', otherwise)]:
                    if v == input_idx:
                        continue
                    if rb == tg or rb in flow.reach_edges(b, [tg], avoid_blocks={sw}):
                        # reachable from a non-Input arm: but only a problem if that arm does not also pass an ordering call
                        # before the dedup call; the raw definition itself is what is handed over when no ordering call
                        # lies between it and the dedup call
                        bad.append((v, b.blocks[rb].term.line))
        bad = sorted(set(bad), key=str)
        ctx.ob('EPSORDER', '%s|%s' % (PREPROCESS, short), cfg, not bad,
               'input of %s passes %s; the caller\'s listing is handed over on the Input arm only' % (short, ordered) if not bad else
               'input of %s is the caller\'s listing (to_vec at line %s) also for insertion-order variant(s) %s, not only for Input: '
               'the first-visited survivor of a group of near-duplicates then depends on the listing order' % (
                   short, sorted({l for _, l in bad}), sorted({str(v) for v, _ in bad})), site=site)
    ctx.floor('epsilon de-duplication calls in the construction preprocessing', 1, n, cfg)


def _staticflow(ctx, cfg, prog, mod):
    """STATICFLOW: process-wide mutable state (a `static` atomic / OnceLock / Mutex) survives from one construction to the
    next and is shared between threads, so nothing read from it may influence a result.  For every read of a static in
    library code the value's forward slice ends in logging / comparison-free telemetry, or in the return value of an
    exported function nobody in the crate calls (a telemetry getter), or the function is a table entry with its reason.
    A helper that returns `COUNTER.fetch_add(1) + 1` to a caller that mixes it into a seed is reported at the helper."""
    ctx.rule('STATICFLOW', 'nothing read from process-wide mutable state reaches a result')
    n = 0
    for q, b in sorted(prog.bodies.items()):
        if '::tests::' in q or not b.file.startswith('src/'):
            continue
        statics = {}
        for blk in b.blocks:
            for s_ in blk.stmts:
                if s_.kind == 'A' and s_.rv.k == 'use' and s_.rv.ops and s_.rv.ops[0].kind == 'k' and \
                        isinstance(s_.rv.ops[0].const, dict) and 'alloc' in str(s_.rv.ops[0].const.get('v', '')) and \
                        s_.place.is_local() and any(k in str(s_.rv.ops[0].const.get('ty', '')) for k in
                                                    ('atomic::Atomic', 'OnceLock', 'Mutex', 'RwLock', 'LazyLock', 'OnceCell')):
                    statics[s_.place.local] = str(s_.rv.ops[0].const.get('ty'))
        if not statics:
            continue
        root = b.root or q
        for bb, t in b.calls():
            last = (t.callee or t.resolved or '').rsplit('::', 1)[-1]
            if last not in STATIC_READS or not t.args or t.args[0].place is None:
                continue
            l = t.args[0].place.local
            d = b.single_def(l)
            src = d[2].rv.place.local if d and d[1] != 'term' and d[2].rv.place is not None else None
            if l not in statics and src not in statics:
                continue
            n += 1
            leak = _clock_leak(prog, b, t)
            callers = [c for c in prog.callers.get(root, ()) if '::tests::' not in c]
            getter = leak == 'the return value' and not callers and b.exported
            reason = STATIC_TABLE.get(root)
            ok = leak is None or getter
            ctx.ob('STATICFLOW', '%s|%s' % (root, last), cfg, ok,
                   'value of %s() on a static %s' % (last, statics.get(src, statics.get(l, '?')).split('::')[-1]) + (
                       ' does not leave logging / telemetry' if leak is None else
                       ' is returned by an exported getter that nothing in the crate calls' if getter else
                       ' flows into %s: state that outlives a construction and is shared between threads can change what the same '
                       'input produces (seeds, decisions)' % leak),
                   assumed=None if ok else reason, site='%s:%d' % (b.file, t.line))
    ctx.floor('reads of process-wide statics', 3, n, cfg)
