"""C05 — validators (structural clauses).

 COVER    each cumulative validator's Ok exit lies behind the success edge of every leaf checker of
          its level (outside loops: dominance; inside per-element loops: the call exists and its
          result is never dropped), and of the lower level's cumulative validator;
 PRED     in Triangulation::is_valid the ridge-link and vertex-link checkers are passed on the true
          edge of the topology-guarantee predicates; validate_at_completion likewise;
 NODROP   no validator (pure function returning Result<(),_> / bool / a report) above the Level
          1-3 leaves drops or swallows a checker result;
 SIBLING  each diagnostic report reaches every leaf its cumulative validator reaches (one reasoned
          exception).
Not decided: that each leaf catches its fault class; absence of false rejections."""
import flow
import gate
import loops
import tables
from tables import T, TR, DTQ, MAN

EXPLANATION = (
    "The validator stack as a dominance / error-propagation structure over MIR. COVER: for every (cumulative "
    "validator, required leaf) pair the validator's Ok exits must be unreachable once the success edges of the calls "
    "covering that leaf are removed (leaf calls inside per-element loops are instead required to exist and to be "
    "error-propagating). PRED: the same, started from the true edge of the TopologyGuarantee predicate. NODROP: for every "
    "pure verdict function that reaches a Level 1-3 leaf, each checker call's result is split and its failure edge "
    "reaches no success exit (or is recorded in a report vector). SIBLING: call-graph reach sets of report vs validate. "
    "Whether the leaves themselves are right is not decided.")

TDS_IS_VALID = T + 'is_valid'
TDS_VALIDATE = T + 'validate'
TRI_IS_VALID = TR + 'is_valid'
TRI_VALIDATE = TR + 'validate'
TRI_COMPLETE = TR + 'validate_at_completion'
DT_IS_VALID = DTQ + 'is_valid'
DT_VALIDATE = DTQ + 'validate'

COVER = [
    # (validator, required callees that must gate its Ok) ; leaves are matched by call-graph reach
    (TDS_IS_VALID, sorted(tables.L2)),
    (TDS_VALIDATE, sorted(tables.L1) + [TDS_IS_VALID]),
    (TRI_IS_VALID, sorted(tables.L3_CORE)),
    (TRI_VALIDATE, [TDS_VALIDATE, TRI_IS_VALID, TRI_COMPLETE]),
    (DT_IS_VALID, [tables.L4_ENTRY]),
    (DT_VALIDATE, [TRI_VALIDATE, DT_IS_VALID]),
]
PREDS = [
    (TRI_IS_VALID, tables.PRED_RIDGE, sorted(tables.L3_RIDGE)),
    (TRI_IS_VALID, tables.PRED_VLINK_INS, sorted(tables.L3_VERTEX)),
    (TRI_COMPLETE, tables.PRED_VLINK_DONE, sorted(tables.L3_VERTEX)),
]
SIBLINGS = [
    (TDS_IS_VALID, T + 'validation_report'),   # the Tds report is the Level-2 diagnostic; elements are reported one level up
    (TRI_VALIDATE, TR + 'validation_report'),
    (DT_VALIDATE, DTQ + 'validation_report'),
]
# empty since fix ec4b413 (the report now runs validate_at_completion); before it, four entries excused the asymmetry
SIBLING_EXCEPTIONS = {}


def run(ctx):
    ctx.rule('COVER', 'cumulative validators pass every leaf of their level and the lower cumulative validator before Ok')
    ctx.rule('PRED', 'guarantee-dependent checkers are passed on the true edge of their predicate')
    ctx.rule('NODROP', 'no validator drops or swallows a checker result')
    ctx.rule('SIBLING', 'reports reach every leaf their cumulative validator reaches')
    ctx.rule('LEAFREAD', 'each leaf checker (transitively) reads the data its invariant is about')
    ctx.rule('LEAFFLAT', 'the geometric-orientation leaf refuses a cell whose orientation predicate is zero (a flat cell), per cell')
    ctx.rule('LEAFARITY', 'Cell::is_valid refuses every vertex count other than D + 1 (an equality test, not a lower bound)')
    ctx.rule('LEAFMUTUAL', 'the neighbour check of a shared facet requires both cells to name each other')
    _witness(ctx)
    for cfg in ctx.cfgs:
        prog = ctx.prog(cfg)
        lv = gate.Leaves(prog)
        _cover(ctx, cfg, prog, lv)
        _preds(ctx, cfg, prog, lv)
        _nodrop(ctx, cfg, prog, lv)
        _sibling(ctx, cfg, prog, lv)
        _leafread(ctx, cfg, prog)
        _leafmutual(ctx, cfg, prog)
        _leafarity(ctx, cfg, prog)
        _leafflat(ctx, cfg, prog)
    return ctx.finish(EXPLANATION)


# ------------------------------------------------------------------------------------------ LEAFREAD
_T = 'core::triangulation_data_structure::Tds::'
LEAF_READS = {
    _T + 'validate_vertex_mappings': [('the UUID stored in each vertex', {'uuid', 'vertex_uuid_from_key'}),
                                      ('a lookup in the UUID -> key map / key -> vertex map', {'get', 'contains_key', 'vertex_key_from_uuid'})],
    _T + 'validate_cell_mappings': [('the UUID stored in each cell', {'uuid', 'cell_uuid_from_key'}),
                                    ('a lookup in the UUID -> key map / key -> cell map', {'get', 'contains_key', 'cell_key_from_uuid'})],
    _T + 'validate_cell_vertex_keys': [("each cell's vertex keys", {'vertices', 'vertex_keys', 'get_cell_vertices'}),
                                       ('liveness of a vertex key', {'contains_key', 'get', 'get_vertex_by_key', 'contains_vertex_key'})],
    _T + 'validate_vertex_incidence': [('liveness of the pointed cell', {'get', 'contains_key', 'get_cell', 'contains_cell'}),
                                       ('membership of the vertex in the pointed cell',
                                        {'contains_vertex', 'vertices', 'contains', 'get_cell_vertices', 'vertex_keys'})],
    _T + 'validate_no_duplicate_cells': [("each cell's vertex set", {'vertices', 'get_cell_vertices', 'vertex_uuids', 'vertex_keys'})],
    _T + 'validate_neighbors_with_facet_to_cells_map': [
        ('the neighbour slots', {'neighbors'}),
        ('the mirror facet of a neighbour', {'mirror_facet_index', 'compute_and_verify_mirror_facet', 'compute_expected_mirror_facet_index'}),
        ("the neighbour's own slots (back reference)", {'validate_mutual_neighbor_back_reference', 'neighbors'})],
    _T + 'validate_coherent_orientation': [('the neighbour slots', {'neighbors'}),
                                           ('the vertex order of both cells', {'vertices', 'facet_permutation_parity',
                                                                               'facet_vertices_in_cell_order', 'vertex_keys'})],
    'core::vertex::Vertex::is_valid': [('coordinate finiteness', {'validate', 'is_finite', 'is_nan', 'is_infinite'}),
                                       ('the UUID', {'is_nil', 'validate_uuid', 'get_version_num'})],
    'core::cell::Cell::is_valid': [('repetition among the vertex keys', {'insert', 'contains', 'sort_unstable', 'sort', 'dedup'}),
                                   ('the UUID', {'is_nil', 'validate_uuid', 'get_version_num'})],
}


def _callee_names(prog, q, depth=2, seen=None):
    seen = seen if seen is not None else set()
    out = set()
    for bq in [q] + list(prog.children.get(q, [])):
        b = prog.bodies.get(bq)
        if b is None:
            continue
        for _, t in b.calls():
            n = t.resolved or t.callee or ''
            out.add(n.rsplit('::', 1)[-1])
            if depth > 0 and n in prog.bodies and n not in seen:
                seen.add(n)
                out |= _callee_names(prog, n, depth - 1, seen)
        for c in prog.children.get(bq, []):
            if c not in seen:
                seen.add(c)
                out |= _callee_names(prog, c, depth, seen)
    return out


def _leafread(ctx, cfg, prog):
    """LEAFREAD: the verdict of a leaf checker is a trusted atom, with one structural exception: a checker that never
    reads X cannot be checking X.  For the Level 1-2 leaves, the accessors its invariant is about must be among the
    functions it calls (through closures and two levels of crate callees).  Reachability only - not dominance, not
    the comparison made with what is read."""
    n = 0
    for q, needs in sorted(LEAF_READS.items()):
        b = prog.bodies.get(q)
        if b is None:
            ctx.ob('ANCHOR', 'missing|' + q, cfg, False, 'LEAFREAD table names a function that no longer exists')
            continue
        names = _callee_names(prog, q)
        for (what, accepted) in needs:
            n += 1
            hit = sorted(names & accepted)
            ctx.ob('LEAFREAD', '%s|%s' % (q, what), cfg, bool(hit),
                   ('reads %s through %s' % (what, hit[:3])) if hit else
                   'never reads %s (none of %s is called, directly or through closures / two levels of callees): the fault '
                   'class that needs it cannot be detected by this checker' % (what, sorted(accepted)),
                   site='%s:%d' % (b.file, b.line))
    ctx.floor('LEAFREAD instances', 10, n, cfg)


NEIGH_MATCH = _T + 'validate_neighbor_pointers_match_facet_to_cells_map'


CELL_VALID = 'core::cell::Cell::is_valid'


def _slice_info(b, local, depth=40, fields=None):
    seen, work, calls, hasD = set(), [local], [], False
    fields = fields if fields is not None else set()
    while work and depth:
        depth -= 1
        l = work.pop()
        if l in seen:
            continue
        seen.add(l)
        for (_, idx, node) in b.defs.get(l, []):
            if idx == 'term':
                calls.append(node.resolved or node.callee or '')
                for o in node.args:
                    if o.place is not None:
                        work.append(o.place.local)
                        fields.update(str(x) for x in o.place.proj)
                    elif o.kind == 'k' and isinstance(o.const, dict) and o.const.get('v') == 'D':
                        hasD = True
            else:
                for o in node.rv.ops:
                    if o.place is not None:
                        work.append(o.place.local)
                        fields.update(str(x) for x in o.place.proj)
                    elif o.kind == 'k' and isinstance(o.const, dict) and o.const.get('v') == 'D':
                        hasD = True
                if node.rv.place is not None:
                    work.append(node.rv.place.local)
                    fields.update(str(x) for x in node.rv.place.proj)
    return calls, hasD


GEOM_ORIENT = 'core::triangulation::Triangulation::validate_geometric_cell_orientation'
ECO_ = 'core::triangulation::Triangulation::evaluate_cell_orientation_for_context'


def _leafflat(ctx, cfg, prog):
    """LEAFFLAT: "inverted or flat cell" is owned by the Level-3 leaf `validate_geometric_cell_orientation` (Levels 1-2 and
    every other Level-3 leaf are combinatorial).  Inside its loop over the cells there is a comparison of the orientation
    sign (the i32 delivered by `evaluate_cell_orientation_for_context`) with a literal such that the branch taken for the
    value 0 reaches no success exit.  `orientation.is_negative()` / `orientation < 0` alone lets a zero-volume cell pass."""
    b = prog.bodies.get(GEOM_ORIENT)
    if b is None:
        ctx.ob('ANCHOR', 'missing|' + GEOM_ORIENT, cfg, False, 'LEAFFLAT names a function that no longer exists')
        return
    site = '%s:%d' % (b.file, b.line)
    signs = set()
    for bb, t in b.calls():
        if (t.resolved or t.callee) == ECO_ and t.dest is not None and t.dest.is_local() and bb in flow.reach_edges(b, b.succs(bb)):
            signs.add(t.dest.local)
    changed = True
    while changed:
        changed = False
        for blk in b.blocks:
            for s_ in blk.stmts:
                if s_.kind == 'A' and s_.place.is_local() and s_.place.local not in signs and s_.rv.k == 'use' and s_.rv.ops \
                        and s_.rv.ops[0].place is not None and s_.rv.ops[0].place.local in signs:
                    signs.add(s_.place.local)
                    changed = True
            t = blk.term
            if t.k == 'call' and t.dest is not None and t.dest.is_local() and t.dest.local not in signs and \
                    any(o.place is not None and o.place.local in signs for o in t.args) and \
                    any(k in (t.resolved or t.callee or '') for k in ('Try>::branch', 'FromResidual')):
                signs.add(t.dest.local)
                changed = True
    exits = {e['bb'] for e in gate.success_exit_blocks(b)}
    found = []
    ev = {'Eq': lambda a, k: a == k, 'Ne': lambda a, k: a != k, 'Lt': lambda a, k: a < k, 'Le': lambda a, k: a <= k,
          'Gt': lambda a, k: a > k, 'Ge': lambda a, k: a >= k}
    for blk in b.blocks:
        if blk.cleanup:
            continue
        for s_ in blk.stmts:
            if s_.kind != 'A' or s_.rv.k != 'bin' or s_.rv.raw.get('op') not in ev or not s_.place.is_local():
                continue
            a_, b_ = s_.rv.ops
            iss = lambda o: o.place is not None and o.place.is_local() and b.locals[o.place.local] == 'i32' and o.place.local in signs
            lit = lambda o: o.int_value() if o.kind == 'k' else None
            if iss(a_) and lit(b_) is not None:
                truth0 = ev[s_.rv.raw['op']](0, lit(b_))
            elif iss(b_) and lit(a_) is not None:
                truth0 = ev[s_.rv.raw['op']](lit(a_), 0)
            else:
                continue
            t = blk.term
            if t.k != 'switch' or t.discr.place is None or t.discr.place.local != s_.place.local:
                continue
            listed = {v: tg for v, tg in t.values}
            tgt_true = t.otherwise if 0 in listed else listed.get(1, t.otherwise)
            tgt_false = listed.get(0, t.otherwise)
            zero_edge = tgt_true if truth0 else tgt_false
            if not (exits & flow.reach_edges(b, [zero_edge])):
                found.append(s_.line)
        t = blk.term
        if t.k == 'switch' and t.discr.place is not None and t.discr.place.is_local() and t.discr.place.local in signs and \
                b.locals[t.discr.place.local] == 'i32':
            listed = {v: tg for v, tg in t.values}
            z = listed.get(0, t.otherwise)
            if not (exits & flow.reach_edges(b, [z])):
                found.append(t.line)
    ctx.ob('LEAFFLAT', GEOM_ORIENT, cfg, bool(found),
           'the branch taken for orientation == 0 refuses at line %s' % found[:2] if found else
           'no comparison of the per-cell orientation sign sends the value 0 to a refusal: a flat (zero-volume) cell passes the only '
           'leaf that looks at geometry (%d sign locals)' % len(signs), site=site)


def _leafarity(ctx, cfg, prog):
    """LEAFARITY: a cell is a D-simplex: exactly D + 1 vertex keys.  `Cell::is_valid` (the Level-1 leaf that owns the
    invariant; no Level-2 leaf re-checks the count) contains an (in)equality test between the length of the vertex list
    and a value computed from the const dimension, and from its unequal edge no success exit is reachable.  A lower
    bound (`get(..=D)`, `len() < D + 1`) accepts a cell with D + 2 keys and ignores the extra one."""
    b = prog.bodies.get(CELL_VALID)
    if b is None:
        ctx.ob('ANCHOR', 'missing|' + CELL_VALID, cfg, False, 'LEAFARITY names a function that no longer exists')
        return
    site = '%s:%d' % (b.file, b.line)
    exits = {e['bb'] for e in gate.success_exit_blocks(b)}
    found = []
    for blk in b.blocks:
        if blk.cleanup:
            continue
        for s_ in blk.stmts:
            if s_.kind != 'A' or s_.rv.k != 'bin' or s_.rv.raw.get('op') not in ('Eq', 'Ne') or not s_.place.is_local():
                continue
            sides = []
            for o in s_.rv.ops:
                if o.place is not None:
                    flds = set()
                    calls, hasD = _slice_info(b, o.place.local, fields=flds)
                    is_vertex_len = any(c.rsplit('::', 1)[-1] == 'len' for c in calls) and any('vertices' in f for f in flds) \
                        and not any('neighbors' in f for f in flds)
                    sides.append((is_vertex_len, hasD))
                else:
                    sides.append((False, o.kind == 'k' and isinstance(o.const, dict) and o.const.get('v') == 'D'))
            if not ((sides[0][0] and sides[1][1]) or (sides[1][0] and sides[0][1])):
                continue
            t = blk.term
            if t.k != 'switch' or t.discr.place is None or not t.discr.place.is_local() or t.discr.place.local != s_.place.local:
                continue
            listed = {v: tg for v, tg in t.values}
            tgt_true = t.otherwise if 0 in listed else listed.get(1, t.otherwise)
            tgt_false = listed.get(0, t.otherwise)
            unequal = tgt_true if s_.rv.raw['op'] == 'Ne' else tgt_false
            reach = flow.reach_edges(b, [unequal])
            found.append((s_.line, not (exits & reach)))
    ok = any(g for _, g in found)
    ctx.ob('LEAFARITY', CELL_VALID, cfg, ok,
           'vertex count compared with D + 1 by (in)equality at line %s; the unequal edge reaches no success exit' % [l for l, g in found if g][:2]
           if ok else 'no (in)equality test between the length of the vertex list and D + 1 whose unequal edge refuses: a cell with '
           'D + 2 vertex keys passes Level 1 (tests found: %s)' % (found or 'none'), site=site)


def _leafmutual(ctx, cfg, prog):
    """LEAFMUTUAL: for an interior facet shared by cells a and b the neighbour relation is valid only if a's slot names
    b *and* b's slot names a.  In `validate_neighbor_pointers_match_facet_to_cells_map` there are (at least) two
    equality tests between a neighbour slot (`Option<CellKey>`) and a cell key, and from each of them the rest of the
    function is reachable only through its *equal* edge: a test whose outcome is merely combined with the other one
    (`a_links_b != b_links_a`) lets "both slots empty" through."""
    b = prog.bodies.get(NEIGH_MATCH)
    if b is None:
        ctx.ob('ANCHOR', 'missing|' + NEIGH_MATCH, cfg, False, 'LEAFMUTUAL names a function that no longer exists')
        return
    site = '%s:%d' % (b.file, b.line)
    cmps = []
    for bb, t in b.calls():
        last = (t.callee or t.resolved or '').rsplit('::', 1)[-1]
        if last not in ('eq', 'ne') or len(t.args) < 2:
            continue
        tys = [b.locals[o.place.local] for o in t.args if o.place is not None]
        if not tys or not all('Option<core::triangulation_data_structure::CellKey>' in ty.replace(' ', '') for ty in tys):
            continue
        cf = flow.call_flow(b, bb)
        equal = cf.ok_edges if last == 'eq' else cf.err_edges
        cmps.append((bb, last, equal, t.line))
    oks = [e['bb'] for e in gate.success_exit_blocks(b)]
    good = 0
    details = []
    for (bb, last, equal, line) in cmps:
        if not equal:
            details.append('L%d: result not branched on' % line)
            continue
        reach = flow.reach_edges(b, b.succs(bb), avoid_edges=equal)
        # without the equal edge only failure may follow
        if any(x in reach for x in oks):
            details.append('L%d: an Ok exit is reachable on the unequal side' % line)
            continue
        good += 1
    ok = good >= 2
    ctx.ob('LEAFMUTUAL', NEIGH_MATCH, cfg, ok,
           'slot-vs-key equality tests: %d, of which %d let the function continue only on their equal edge%s' % (
               len(cmps), good, '' if ok else ' (%s): the two directions of the neighbour relation are not both required - a shared '
               'facet whose two slots are both empty (or both wrong in the same way) passes Level 2' % '; '.join(details)),
           site=site)


def _witness(ctx):
    """(d) the fault classes of the statement cannot be planted through the public API of a live
    triangulation, and the meaning of the TopologyGuarantee / policy predicates is pinned."""
    import witness
    ctx.rule('WITNESS', 'compile-fail witnesses (storage of a live triangulation is not writable through the public API) '
                        'and const-evaluated truth tables of the policy predicates')
    results, log = witness.run()
    if not results or len(results) < 10:
        ctx.ob('WITNESS', 'run', 'witness', False, 'witness crate did not build / run: ' + log[-600:])
        return
    for (name, kind, ok) in results:
        ctx.ob('WITNESS', '%s|%s' % (name, kind), 'witness', ok,
               {'compile_fail': 'the offending program is rejected with the expected error code',
                'twin': 'the twin program (same path, legal line) compiles',
                'const-eval': 'all truth-table assertions hold under const evaluation'}[kind] if ok else
               'witness %s (%s) no longer behaves as expected: %s' % (name, kind, _tail(log, name)))
    ctx.floor('witness doctests', 16, len(results) - 1, 'witness')


def _tail(log, name):
    i = log.find('---- src/lib.rs - ' + name)
    return log[i:i + 700] if i >= 0 else log[-700:]


def _in_loop(body, bb):
    for h, nodes in loops.natural_loops(body).items():
        if bb in nodes:
            return True
    return False


def _cover(ctx, cfg, prog, lv):
    n = 0
    for (vq, required) in COVER:
        vb = ctx.anchor(cfg, vq)
        if vb is None:
            continue
        for leaf in required:
            if leaf not in prog.bodies:
                ctx.ob('ANCHOR', 'missing|' + leaf, cfg, False, 'leaf checker %s not found' % leaf)
                continue
            n += 1
            key = '%s|%s' % (vq, leaf)
            gcalls = gate.gate_calls(prog, lv, vb, {leaf}, 'any')
            site = '%s:%d' % (vb.file, vb.line)
            if not gcalls:
                ctx.ob('COVER', key, cfg, False,
                       '%s no longer calls anything that reaches %s: faults of that class pass this level' % (vq, leaf), site=site)
                continue
            looped = [g for g in gcalls if _in_loop(vb, g)]
            if looped and len(looped) == len(gcalls):
                bad = gate.nodrop(prog, lv, vb, {vb.blocks[g].term.resolved or vb.blocks[g].term.callee for g in gcalls})
                ok = not bad
                ctx.ob('COVER', key, cfg, ok,
                       'per-element loop: %s is called for each element and its failure is %s' % (
                           leaf.rsplit('::', 2)[-2] + '::' + leaf.rsplit('::', 1)[-1],
                           'propagated' if ok else 'NOT propagated: ' + '; '.join(w for (_, _, w) in bad)), site=site)
                continue
            r = gate.must_pass(prog, lv, vb, {leaf}, mode='any')
            ctx.ob('COVER', key, cfg, r['ok'], gate.describe(vb, r), site=site)
            if cfg == ctx.cfgs[0] and n % 5 == 0:
                ctx.sample({'rule': 'COVER', 'validator': vq, 'leaf': leaf, 'ok': r['ok'],
                            'gates': [g[1] for g in r['gates']]})
    ctx.floor('COVER pairs', 23, n, cfg)


def _preds(ctx, cfg, prog, lv):
    for (vq, pred, required) in PREDS:
        vb = ctx.anchor(cfg, vq)
        if vb is None:
            continue
        true_edges = gate.predicate_edges(vb, {pred}, True)
        site = '%s:%d' % (vb.file, vb.line)
        if not true_edges:
            ctx.ob('PRED', '%s|%s' % (vq, pred), cfg, False, 'predicate %s is no longer consulted in %s' % (pred, vq), site=site)
            continue
        starts = sorted({d for (_, d) in true_edges})
        # "no cells yet" is a legitimate early Ok (bootstrap phase): cut its edge
        empty_edges = zero_count_edges(vb, T + 'number_of_cells')
        for leaf in required:
            r = gate.must_pass(prog, lv, vb, {leaf}, mode='any', starts=starts, extra_cut_edges=empty_edges)
            ctx.ob('PRED', '%s|%s|%s' % (vq, pred.rsplit('::', 1)[-1], leaf.rsplit('::', 1)[-1]), cfg, r['ok'],
                   'from the true edge of %s: %s' % (pred.rsplit('::', 1)[-1], gate.describe(vb, r)), site=site)
        # and the false edge of a completion predicate returns Ok early only for that reason: noted
    ctx.floor('PRED instances', 3, len(PREDS), cfg)


def zero_count_edges(body, counter_fn):
    """Edges taken when `counter_fn(..) == 0` (true edge of Eq(count, 0) / false edge of Ne / Gt)."""
    edges = set()
    uses = flow._collect_uses(body)
    for bb, t in body.calls():
        if (t.resolved or t.callee) != counter_fn or t.dest is None or not t.dest.is_local():
            continue
        locs = {t.dest.local}
        work = [t.dest.local]
        while work:
            l = work.pop()
            for (ubb, _, node, how) in uses.get(l, []):
                if how == 'stmt' and node.rv.k == 'use' and node.place.is_local() and node.place.local not in locs:
                    locs.add(node.place.local)
                    work.append(node.place.local)
                elif how == 'stmt' and node.rv.k == 'bin' and node.rv.raw['op'] in ('Eq', 'Ne', 'Gt') and node.place.is_local():
                    other = [o for o in node.rv.ops if not (o.place is not None and o.place.is_local() and o.place.local == l)]
                    if not other or other[0].int_value() != 0:
                        continue
                    for (sbb, _, snode, show) in uses.get(node.place.local, []):
                        if show == 'switch':
                            listed = {v: tg for v, tg in snode.values}
                            if 0 not in listed:
                                continue
                            if node.rv.raw['op'] == 'Eq':
                                edges.add((sbb, snode.otherwise))
                            else:
                                edges.add((sbb, listed[0]))
    return edges


def _nodrop(ctx, cfg, prog, lv):
    total = 0
    for name, leafset in (('L1', set(tables.L1) | {tables.L1_COORD}), ('L2', set(tables.L2)),
                          ('L3', set(tables.L3_CORE) | tables.L3_RIDGE | tables.L3_VERTEX)):
        S, off = gate.sound_validators(prog, lv, leafset)
        for q in sorted(S):
            b = prog.bodies[q]
            if b.kind == 'closure':
                continue
            total += 1
            ctx.ob('NODROP', '%s|%s' % (name, q), cfg, True, 'no %s checker result dropped' % name, site='%s:%d' % (b.file, b.line))
        for q, bad in sorted(off.items()):
            b = prog.bodies[q]
            total += 1
            ctx.ob('NODROP', '%s|%s' % (name, b.root or q), cfg, False,
                   '; '.join('%s: %s' % (n.rsplit('::', 1)[-1], why) for (_, n, why) in bad), site='%s:%d' % (b.file, b.line))
    ctx.floor('validators examined for dropped results', 18, total, cfg)


def _sibling(ctx, cfg, prog, lv):
    all_leaves = set(tables.L1) | set(tables.L2) | set(tables.L3_CORE) | tables.L3_RIDGE | tables.L3_VERTEX | \
        {tables.L4_ENTRY, TRI_COMPLETE}
    for (vq, rq) in SIBLINGS:
        vb = ctx.anchor(cfg, vq)
        rb = ctx.anchor(cfg, rq)
        if vb is None or rb is None:
            continue
        vr = lv.reach_set(vq) & all_leaves
        rr = lv.reach_set(rq) & all_leaves
        missing = sorted(vr - rr)
        for m in missing:
            ctx.ob('SIBLING', '%s|%s' % (rq, m), cfg, False,
                   '%s reaches %s but the report %s does not: a fault of that class fails validate() with an empty report' % (
                       vq, m, rq), assumed=SIBLING_EXCEPTIONS.get((rq, m)), site='%s:%d' % (rb.file, rb.line))
        ctx.ob('SIBLING', rq, cfg, True, 'leaves reached by validate: %d, by the report: %d, missing: %d' % (len(vr), len(rr), len(missing)),
               site='%s:%d' % (rb.file, rb.line))
        if cfg == ctx.cfgs[0]:
            ctx.sample({'rule': 'SIBLING', 'validate': vq, 'report': rq, 'missing_in_report': missing})
