"""C06 — vertex removal (structural clauses).

 TXN      both remove_vertex layers and the inverse k=1 flip they use are clean on failure
          (the C03 engine, restricted to these owners);
 UNKNOWN  removing an unknown vertex: from the None edge of the UUID lookup no storage mutation is
          reachable and the only exits are Ok(0);
 POSTFILL the fan retriangulation reports success only behind the success edges of the local facet
          check, the coherent-orientation normalisation, the geometric orientation check, the
          incident-cell rebuild and the vertex removal itself;
 REPAIR   in the Delaunay layer, when the repair policy fires, Ok lies behind the success edge of
          the (post-condition-verified) flip repair.
 POSTVALID the fan is a heuristic fill (not a valid retriangulation for every vertex, e.g. on the hull):
          the retriangulation reports success only behind a call that covers every core Level-3
          validator (so an unsuitable fan is rolled back by TXN instead of being returned as Ok).
          Violated today: known finding F13 (run-time witnesses are all Level-3 failures; Level 2 is not
          demanded because no Level-2 witness exists).
Not decided: whether a valid fan exists (geometric); the property allows "or no change"."""
import flow
import gate
import pair
import txn
import c03
from tables import TR, DTQ, T

EXPLANATION = (
    "TXN: the C03 rollback dataflow with the owner set {DelaunayTriangulation::remove_vertex, Triangulation::remove_vertex, "
    "apply_bistellar_flip_k1_inverse}. UNKNOWN: in each layer the region reachable from the None edge of "
    "Tds::vertex_key_from_uuid contains no storage-mutating event and every exit in it is Ok(const 0). POSTFILL / REPAIR: "
    "must-pass-through on success edges. The geometry of the fan fill is not decided.")

DT_RM = DTQ + 'remove_vertex'
TRI_RM = TR + 'remove_vertex'
TDS_RM = T + 'remove_vertex'
K1INV = 'core::algorithms::flips::apply_bistellar_flip_k1_inverse'
LOOKUP = T + 'vertex_key_from_uuid'
REPAIR = 'core::algorithms::flips::repair_delaunay_with_flips_k2_k3'
SHOULD = DTQ + 'should_run_delaunay_repair_for'
POSTFILL = [TR + 'detect_local_facet_issues', T + 'normalize_coherent_orientation',
            TR + 'validate_geometric_cell_orientation', T + 'assign_incident_cells', TDS_RM]


FAN = TR + 'fan_fill_cavity'
FACET_ACCESSORS = ('facet_index', 'facet_vertices', 'facet_vertex_keys', 'vertices_of_facet', 'facet_view', 'opposite_vertex',
                   'opposite_vertex_key')


INSERT_CELL = T + 'insert_cell_with_mapping'
CELL_REMOVERS = ('remove_cell_by_key', 'remove_cells_by_keys', 'remove_cell', 'pop', 'truncate', 'swap_remove', 'retain', 'clear')


def _fancover(ctx, cfg, prog, mod):
    """FANCOVER: the fan closes the cavity only if every boundary facet that does not already contain the apex gets
    its cone.  In `fan_fill_cavity`, inside the loop over the boundary facets: (a) nothing removes a cell or shrinks
    the list of new cells; (b) every cycle passes the insertion of a cell or the true edge of the `contains(apex)`
    test (every other way out of an iteration leaves the function)."""
    import loops
    b = ctx.anchor(cfg, FAN)
    if b is None:
        return
    al = mod.aliases(FAN)
    lps = loops.natural_loops(b)
    ins = [bb for bb, t in b.calls() if (t.resolved or t.callee) == INSERT_CELL]
    site = '%s:%d' % (b.file, b.line)
    outer = [(h, nodes) for h, nodes in lps.items() if any(x in nodes for x in ins)]
    if not ins or not outer:
        ctx.ob('FANCOVER', FAN, cfg, False, 'no loop that inserts a cell per boundary facet found', site=site)
        return
    h, nodes = max(outer, key=lambda x: len(x[1]))
    removers = []
    for bb in sorted(nodes):
        t = b.blocks[bb].term
        if t.k == 'call' and (t.callee or t.resolved or '').rsplit('::', 1)[-1] in CELL_REMOVERS:
            ty = b.locals[t.args[0].place.local] if t.args and t.args[0].place is not None else ''
            tt = al.operand_target(t.args[0]) if t.args else None
            if 'Tds<' in ty or 'CellKey' in ty or (tt is not None and ('cells',) == tuple(tt[1][-1:])):
                removers.append((t.callee or t.resolved or '').rsplit('::', 1)[-1] + '@L%d' % t.line)
    skip_edges = set()
    for bb in sorted(nodes):
        t = b.blocks[bb].term
        if t.k == 'call' and (t.callee or t.resolved or '').rsplit('::', 1)[-1] in ('contains', 'contains_vertex'):
            skip_edges |= flow.call_flow(b, bb).ok_edges
    # a cycle through the header that avoids both the insertion and the apex-skip edge?
    seen = set()
    work = [(h, s_) for s_ in b.succs(h)]
    free = False
    while work:
        (a_, x) = work.pop()
        if (a_, x) in skip_edges or x not in nodes or x in ins:
            continue
        if x == h:
            free = True
            break
        if x in seen:
            continue
        seen.add(x)
        for s_ in b.succs(x):
            work.append((x, s_))
    ok = not removers and not free
    ctx.ob('FANCOVER', FAN, cfg, ok,
           'loop over the boundary facets: cell insertions %d, apex-skip edges %d; %s' % (len(ins), len(skip_edges),
               'every iteration inserts a cone or skips a facet containing the apex' if ok else
               ('cells are removed again inside the loop (%s)' % removers if removers else
                'an iteration can finish without inserting a cone and without the apex test') +
               ': a boundary facet is left open, the removal returns Ok with a slit in the complex (Level 3 fails later)'),
           site=site)


def _slice_up(prog, mod, body, local, depth=0, seen=None):
    """Backward slice through crate callees, closure captures and - when it ends at a parameter - the arguments at
    every call site of that function (the apex may be handed to a helper that builds the fan)."""
    import valueflow
    seen = seen if seen is not None else set()
    if (body.q, local) in seen or depth > 3:
        return []
    seen.add((body.q, local))
    leaves = list(valueflow.deep_sources_up(prog, mod, body, local, depth=3))
    params = {x[1] for x in leaves if x[0] == 'param' and len(x) > 2 and x[2] == body.q}
    if 1 <= local <= body.nargs:
        params.add(local)
    if params and body.kind != 'closure':
        for cq in sorted(prog.callers.get(body.q, ())):
            cb = prog.bodies.get(cq)
            if cb is None or '::tests::' in cq:
                continue
            for _, ct in cb.calls():
                if (ct.resolved or ct.callee) != body.q:
                    continue
                for pi in params:
                    if pi - 1 < len(ct.args) and ct.args[pi - 1].place is not None:
                        leaves += _slice_up(prog, mod, cb, ct.args[pi - 1].place.local, depth + 1, seen)
    return leaves


def _apex(ctx, cfg, prog, mod):
    """APEX: every cell of the star contains the removed vertex, and the boundary facets are named by (star cell, index of
    the removed vertex in it).  An apex taken from the vertices of those cells must therefore be chosen *with* that
    index (or through a facet-level vertex accessor, which leaves the opposite vertex out), or be compared with the
    removed vertex before the fan is built; otherwise the removed vertex itself can become the apex, the fan re-creates
    the star, and the removal leaves a hole.  Checked on the value handed to fan_fill_cavity as apex: its backward
    slice (through the closure capture and into crate callees) contains a facet-index / facet-vertex accessor, or the
    caller branches on an (in)equality involving the apex before the call."""
    import valueflow
    ctx.rule('APEX', 'the fan apex depends on the facet (opposite-vertex) index or is compared with the removed vertex')
    n = 0
    for q, b in sorted(prog.bodies.items()):
        if '::tests::' in q or not b.file.startswith('src/'):
            continue
        for bb, t in b.calls():
            if (t.resolved or t.callee) != FAN or len(t.args) < 2 or t.args[1].place is None:
                continue
            n += 1
            body, local = b, t.args[1].place.local
            leaves = _slice_up(prog, mod, body, local)
            acc = sorted({(x[1].callee or x[1].resolved or '').rsplit('::', 1)[-1] for x in leaves if x[0] == 'call'} &
                         set(FACET_ACCESSORS))
            compared = any((x[0] == 'op' and x[1] in ('Eq', 'Ne')) or
                           (x[0] == 'call' and (x[1].callee or x[1].resolved or '').rsplit('::', 1)[-1] in ('eq', 'ne'))
                           for x in leaves) and not acc
            if not acc and not compared:
                # an (in)equality on the apex value in the body that builds the fan
                copies = {local}
                for blk in body.blocks:
                    for s_ in blk.stmts:
                        if s_.kind == 'A' and s_.rv.k in ('use', 'ref') and s_.place.is_local():
                            src = s_.rv.ops[0].place if s_.rv.ops else s_.rv.place
                            if src is not None and src.local in copies:
                                copies.add(s_.place.local)
                for blk in body.blocks:
                    for s_ in blk.stmts:
                        if s_.kind == 'A' and s_.rv.k == 'bin' and s_.rv.raw.get('op') in ('Eq', 'Ne') and \
                                any(o.place is not None and o.place.local in copies for o in s_.rv.ops):
                            compared = True
                    tt = blk.term
                    if tt.k == 'call' and (tt.callee or tt.resolved or '').rsplit('::', 1)[-1] in ('eq', 'ne') and \
                            any(o.place is not None and o.place.local in copies for o in tt.args):
                        compared = True
            ok = bool(acc) or compared
            ctx.ob('APEX', '%s|fan_fill_cavity' % (b.root or q), cfg, ok,
                   'apex handed to fan_fill_cavity %s' % (
                       'is selected with %s' % acc if acc else 'is selected / checked with an (in)equality test' if compared else
                       'neither depends on the facet (opposite-vertex) index nor is compared with the removed vertex: every star '
                       'cell contains the removed vertex, so it can be picked as apex - the fan then re-creates the star and '
                       'the removal returns Ok with a hole in the complex'),
                   site='%s:%d' % (b.file, t.line))
    ctx.floor('fan_fill_cavity call sites', 1, n, cfg)


# ------------------------------------------------------------------------------------------ STARSCAN
# Tds::remove_vertex deletes the star of the vertex and fills nothing.  The triangulation layer may call it
# (i) after the fan fill, or (ii) when the star *computed from the cells stored in the Tds* is empty.  A decision
# taken from the caller's copy of the vertex (whose `incident_cell` is whatever the caller's copy holds) is not (ii).
SCAN_CALLS = (T + 'cells', 'core::algorithms::locate::extract_cavity_boundary', T + 'find_cells_containing_vertex_by_key',
              T + 'cell_keys', T + 'number_of_cells')


def _reaches(prog, name, targets, memo, depth=3):
    if name in targets:
        return True
    if name in memo:
        return memo[name]
    memo[name] = False
    b = prog.bodies.get(name)
    if b is None or depth == 0:
        return False
    r = any(_reaches(prog, (t.resolved or t.callee), targets, memo, depth - 1) for _, t in b.calls())
    if not r:
        r = any(_reaches(prog, c, targets, memo, depth - 1) for c in prog.children.get(name, []))
    memo[name] = r
    return r


def _reaches_fan(prog, name, memo, depth=3):
    return _reaches(prog, name, (FAN,), memo, depth)


def _starscan(ctx, cfg, prog, mod):
    import valueflow
    fam = [TRI_RM] + [c for c in prog.children.get(TRI_RM, []) if c in prog.bodies]
    direct = {(t.resolved or t.callee) for q in fam for _, t in prog.bodies[q].calls()}
    fam += [q for q in sorted(direct) if q in prog.bodies and q.startswith(TR) and q != TRI_RM and
            any((t.resolved or t.callee) == TDS_RM for _, t in prog.bodies[q].calls())]
    memo = {}
    scan_memo = {}
    n = 0
    for q in sorted(set(fam)):
        b = prog.bodies[q]
        calls = [(bb, t) for bb, t in b.calls() if (t.resolved or t.callee) == TDS_RM]
        if not calls:
            continue
        al = mod.aliases(q)
        fan_blocks = {bb for bb, t in b.calls() if _reaches_fan(prog, (t.resolved or t.callee), memo)}
        gates = set()
        details = []
        for blk in b.blocks:
            t = blk.term
            if blk.cleanup or t.k != 'switch' or t.discr.place is None or not t.discr.place.is_local():
                continue
            srcs = valueflow.sources(b, al, t.discr.place.local)
            scans = sorted({(l[1].resolved or l[1].callee) for l in srcs if l[0] == 'call' and
                            (l[1].resolved or l[1].callee) != LOOKUP and
                            _reaches(prog, (l[1].resolved or l[1].callee), SCAN_CALLS, scan_memo, 2)})
            if not scans:
                continue
            empt = [l for l in srcs if l[0] == 'call' and (l[1].resolved or l[1].callee or '').endswith('::is_empty')]
            if empt:
                edges = set()
                for l in empt:
                    edges |= flow.call_flow(b, l[2]).ok_edges
                edges = {e for e in edges if e[0] == blk.idx} or {(blk.idx, d) for d in b.succs(blk.idx)}
            else:
                # a comparison (`len() == 0`, `count < 1`): polarity is not decided; a Result / Option discriminant
                # (`?` on the scan itself) is not an emptiness decision
                d = b.single_def(t.discr.place.local)
                if d is None or d[1] == 'term' or d[2].rv.k != 'bin':
                    continue
                edges = {(blk.idx, d_) for d_ in b.succs(blk.idx)}
            gates |= edges
            details.append('line %d on %s' % (t.line, '/'.join(x.rsplit('::', 1)[-1] for x in scans)))
        reach = flow.reach_edges(b, [0], avoid_edges=gates, avoid_blocks=fan_blocks)
        for bb, t in calls:
            n += 1
            ok = bb not in reach
            where = 'behind the fan fill' if ok and any(bb in flow.reach_edges(b, [f]) for f in fan_blocks) else \
                'behind an emptiness decision on the star / cavity boundary computed from the Tds (%s)' % '; '.join(details[:3])
            ctx.ob('STARSCAN', '%s|line-order-%d' % (q, [x for x, _ in calls].index(bb)), cfg, ok,
                   ('Tds::remove_vertex (deletes the star, fills nothing) is reached only ' + where) if ok else
                   'Tds::remove_vertex (deletes the star, fills nothing) can be reached without the fan fill and without a decision '
                   'derived from the cells stored in the Tds (%s): a caller-supplied copy of the vertex decides whether the '
                   'star is refilled' % (', '.join(details) or 'no scan-derived decision in this body'),
                   site='%s:%d' % (b.file, t.line))
    ctx.floor('Tds::remove_vertex call sites in the triangulation-layer removal', 1, n, cfg)


def run(ctx):
    ctx.rule('POSTFLIP', 'the flip kernel used by the fast removal path reports success only behind neighbour wiring, removal of the old cells and the orientation normalisation')
    ctx.rule('STARSCAN', 'the raw Tds removal (no refill) is reached only behind the fan fill or an emptiness decision on the star computed from the Tds')
    ctx.rule('TXN', 'remove_vertex (both layers) and the inverse k=1 flip are clean on failure')
    ctx.rule('UNKNOWN', 'unknown vertex => no mutation reachable and Ok(0)')
    ctx.rule('POSTFILL', 'fan retriangulation Ok lies behind the local facet / orientation / incidence checks')
    ctx.rule('REPAIR', 'when the repair policy fires, Ok lies behind the success edge of the flip repair')
    ctx.rule('APEX', 'the fan apex depends on the facet (opposite-vertex) index or is compared with the removed vertex')
    ctx.rule('FANCOVER', 'the fan fill closes every boundary facet that does not contain the apex')
    ctx.rule('POSTVALID', 'fan retriangulation Ok lies behind a cumulative Level 3 validation of the result')
    for cfg in ctx.cfgs:
        prog = ctx.prog(cfg)
        mod = ctx.mod(cfg)
        lv = gate.Leaves(prog)
        res = pair.Resources(prog, mod)
        for q in (DT_RM, TRI_RM, TDS_RM, K1INV):
            ctx.anchor(cfg, q)
        if any(q not in prog.bodies for q in (DT_RM, TRI_RM, TDS_RM, K1INV)):
            continue
        # ---- TXN (restricted)
        own = [(q, i) for (q, i) in c03.owners(prog, res) if q in (DT_RM, TRI_RM, K1INV)]
        oset = {q for q, _ in c03.owners(prog, res)}
        eng = txn.TxnEngine(prog, mod, res, infeasible=c03.INFEASIBLE, inverse_ok=c03.INVERSE)
        eng.assume_clean = set(oset)
        eng.solve()
        for (q, i) in own:
            b = prog.bodies[q]
            roots = []
            for _ in range(20):
                if not txn.dirty_fail(eng.summary[(q, i)]):
                    break
                r = eng.own_root(q, i, oset)
                if r is None or r['exit_block'] is None or r['exit_block'] in eng.cut_blocks.get(q, ()):
                    break
                roots.append(r)
                eng.cut_blocks.setdefault(q, set()).add(r['exit_block'])
                eng.summary[(q, i)] = eng.analyse(q, i)
            if not roots:
                ctx.ob('TXN', q, cfg, True, 'outcomes %s' % sorted(eng.summary[(q, i)]), site='%s:%d' % (b.file, b.line))
            for r in roots:
                key = '%s|%s' % (q, r['exit'])
                ctx.ob('TXN', key, cfg, False, 'failure exit `%s` reached with storage DIRTY (last dirtying event %s)' % (
                    r['exit'], r['source']), assumed=c03.ASSUMED.get(key), site='%s:%s' % (b.file, r['line']))
        ctx.floor('removal owners', 3, len(own), cfg)
        # ---- UNKNOWN
        for q in (DT_RM, TRI_RM, TDS_RM):
            b = prog.bodies[q]
            rs = [i for i, r in enumerate(res.res.get(q, [])) if r['mut']]
            none_edges = set()
            for bb, t in b.calls():
                if (t.resolved or t.callee) == LOOKUP:
                    none_edges |= flow.call_flow(b, bb).err_edges
            site = '%s:%d' % (b.file, b.line)
            if not none_edges:
                ctx.ob('UNKNOWN', q, cfg, False, 'UUID lookup (vertex_key_from_uuid) with a checked None edge not found', site=site)
                continue
            region = flow.reach_edges(b, [d for (_, d) in none_edges])
            muts = []
            for i in rs:
                if (q, i) not in eng.trace:
                    eng.analyse(q, i)
                ev = eng.trace[(q, i)]
                for bb in region:
                    for e in ev.get(bb, []):
                        if e[0] == 'm' or (e[0] in ('call', 'call_nob') and any(cm for (_, cm) in eng.summary.get((e[1], e[2]), ()))):
                            muts.append((bb, e[0], e[1] if e[0] != 'm' else e[-1]))
            exits = [e for e in flow.exit_assignments(b) if e['bb'] in region]
            bad_exits = []
            for e in exits:
                okz = False
                if e['cls'] == 'ok' and e.get('stmt') is not None:
                    ops = e['stmt'].rv.ops
                    okz = bool(ops) and ops[0].int_value() == 0
                if not okz:
                    bad_exits.append((e['bb'], e['cls']))
            ok = not muts and not bad_exits and bool(exits)
            ctx.ob('UNKNOWN', q, cfg, ok,
                   'None edge of the UUID lookup: %d exit(s), all Ok(0): %s; storage-mutating events reachable: %s' % (
                       len(exits), not bad_exits, muts[:3] or 'none'), site=site)
        # ---- POSTFILL
        # the body that performs the fan retriangulation: today a closure of Triangulation::remove_vertex; a helper
        # method would do as well (any library body that calls fan_fill_cavity and from which remove_vertex returns)
        direct = {(t.resolved or t.callee) for _, t in prog.bodies[TRI_RM].calls()}
        for c_ in prog.children.get(TRI_RM, []):
            if c_ in prog.bodies:
                direct |= {(t.resolved or t.callee) for _, t in prog.bodies[c_].calls()}
        clos = [b_ for q_, b_ in sorted(prog.bodies.items()) if '::tests::' not in q_ and
                any((t.resolved or t.callee) == TR + 'fan_fill_cavity' for _, t in b_.calls()) and
                ((b_.root or q_) == TRI_RM or q_ in direct)]
        ctx.floor('fan retriangulation body', 1, len(clos), cfg)
        for cb in clos:
            for leaf in POSTFILL:
                r = gate.must_pass(prog, lv, cb, {leaf}, mode='any')
                ctx.ob('POSTFILL', '%s|%s' % (TRI_RM, leaf.rsplit('::', 1)[-1]), cfg, r['ok'], gate.describe(cb, r),
                       site='%s:%d' % (cb.file, cb.line))
        # ---- POSTVALID
        import tables
        for cb in clos:
            for lname, leafset in (('L3', set(tables.L3_CORE)),):
                r = gate.must_pass(prog, lv, cb, leafset)
                detail = gate.describe(cb, r)
                if not r['ok']:
                    detail += ('; the fan retriangulation can report success without a validation covering all %d %s checkers: '
                               'an unsuitable fan (hull vertex) is returned as Ok with an invalid complex' % (len(leafset), lname))
                ctx.ob('POSTVALID', '%s|%s' % (TRI_RM, lname), cfg, r['ok'], detail, site='%s:%d' % (cb.file, cb.line))
        # ---- APEX: the fan apex is chosen so that it cannot be the removed vertex itself
        _apex(ctx, cfg, prog, mod)
        _fancover(ctx, cfg, prog, mod)
        _starscan(ctx, cfg, prog, mod)
        # the fast path of remove_vertex is the inverse k=1 flip: the shared flip kernel must wire, remove and normalise
        import c07
        c07._postflip(ctx, cfg, prog, lv)
        # ---- REPAIR
        b = prog.bodies[DT_RM]
        te = gate.predicate_edges(b, {SHOULD}, True)
        if not te:
            ctx.ob('REPAIR', DT_RM, cfg, False, 'should_run_delaunay_repair_for is no longer consulted', site='%s:%d' % (b.file, b.line))
        else:
            r = gate.must_pass(prog, lv, b, {REPAIR}, mode='any', starts=sorted({d for (_, d) in te}))
            ctx.ob('REPAIR', DT_RM, cfg, r['ok'], 'from the true edge of should_run_delaunay_repair_for: ' + gate.describe(b, r),
                   site='%s:%d' % (b.file, b.line))
        # ---- REPAIR-ARG: "with automatic repair enabled" means policy != Never; the insertion counter counts
        # insertions and is not advanced by a removal, so the decision to repair after a removal may not read it
        # (EveryN keyed on it would skip the repair off-cycle)
        import valueflow
        al = mod.aliases(DT_RM)
        n_sites = 0
        for bb, t in b.calls():
            if (t.resolved or t.callee) != SHOULD:
                continue
            n_sites += 1
            reads = []
            for o in t.args[1:]:
                if o.place is None:
                    continue
                for leaf in valueflow.sources(b, al, o.place.local):
                    if leaf[0] == 'place' and leaf[1][1] and leaf[1][1][-1] == 'delaunay_repair_insertion_count':
                        reads.append('.'.join(leaf[1][1]))
            ctx.ob('REPAIR', DT_RM + '|counter-independent', cfg, not reads,
                   'arguments of should_run_delaunay_repair_for at the removal site %s' % (
                       'do not read the insertion counter' if not reads else
                       'read %s: with DelaunayRepairPolicy::EveryN the post-removal repair is skipped whenever the insertion '
                       'counter is off-cycle, although automatic repair is enabled' % sorted(set(reads))),
                   site='%s:%d' % (b.file, t.line))
        ctx.floor('should_run_delaunay_repair_for call sites in remove_vertex', 1, n_sites, cfg)
        if cfg == ctx.cfgs[0]:
            for o in ctx.obligations[:8]:
                ctx.sample({'rule': o['rule'], 'key': o['key'], 'status': o['status'], 'detail': o['detail'][:160]})
    return ctx.finish(EXPLANATION)
