"""C01 — successful batch construction is certified (structural clauses).

 CERT     every exported batch constructor / builder entry (Result<DelaunayTriangulation..>) returns
          Ok only behind the success edge of a sound Delaunay verifier, directly or through callees
          with the same property (greatest fixed point) — in the debug and the release fact base,
          whose retry / validation paths differ;
 PLGATE   wherever construction asks `requires_vertex_links_at_completion()`, the true edge passes
          the success edge of the vertex-link (PL-manifold) validation before Ok;
 NODROP   the Delaunay verifiers drop no checker result (shared with C08).
 POSTORIENT no constructor returns Ok after a flip repair driver succeeded (per-insertion or finalize
          repair) without the geometric orientation of the cells having been re-validated — for every
          topology guarantee (the rule and its gates are those of C08 POSTORIENT; found F15).
 ELEMKEEP  (vertex-set clause, structural part) in the batch de-duplication family every input vertex taken out of
          the input is handed on by value or dropped behind a duplicate verdict - no path loses one silently.
 TWIN     a constructor path and its `*_with_construction_statistics` twin call the same Delaunay verifiers.
Not decided: that the verifiers are themselves right (C04/C05), ball/convexity, the vertex-set and
statistics clauses; Pseudomanifold gets no Level-3 gate at completion by design (noted)."""
import flow
import gate
import tables
from tables import DTQ

EXPLANATION = (
    "CERT: greatest fixed point over all bodies (closures included) returning Result<..DelaunayTriangulation..>: a body "
    "stays certified while every success exit is unreachable once the success edges of its calls to sound Delaunay "
    "verifiers (pure verdict functions that reach the four flip-predicate post-condition checkers or the brute-force "
    "cell check, drop no result, and cannot themselves return Ok without a check having run — policy-gated helpers are "
    "excluded by a second greatest fixed point) or to other certified bodies are removed. Obligation: every exported constructor of "
    "DelaunayTriangulation / DelaunayTriangulationBuilder is certified, separately under cfg(debug_assertions) on and "
    "off. PLGATE: must-pass-through from the true edge of requires_vertex_links_at_completion to Ok via "
    "validate_vertex_links. The numerical soundness of the verifiers is not decided.")

BUILDER = 'core::builder::DelaunayTriangulationBuilder::'
SCOPES = (DTQ, BUILDER)


def _samecert(ctx, cfg, prog, lv, cands):
    """SAMECERT (a contradiction rule): the shuffled-retry loop takes a candidate that has already passed the flip-based
    Level-4 check (`is_valid`) and *rejects it again* unless the brute-force verifier (`is_delaunay_property_only`: every
    cell against every vertex) accepts it - so the authors hold the flip-based check to be insufficient.  Then a
    construction path whose Ok is not behind the brute-force verifier contradicts that belief.  B = greatest fixed point of
    result-returning construction bodies all of whose Ok exits lie behind the success edge of a brute-force verifier or of
    another member.  For every body outside B the offending constructs are named: a value built locally and returned
    (`own`), or a call to a callee outside B whose Ok reaches the body's Ok without the brute-force gate (`via <callee>`)."""
    ctx.rule('SAMECERT', 'when one construction path re-checks candidates with the brute-force Delaunay verifier, every '
                         'construction path returns Ok only behind it')
    brute_leaf = {tables.L4_BRUTE}
    S, _off = gate.sound_validators(prog, lv, brute_leaf)
    G, _sk = gate.unconditional_validators(prog, lv, S, brute_leaf, zero_counters=(tables.T + 'number_of_cells',))
    G = {g for g in G if prog.bodies[g].kind != 'closure'}
    # is the brute-force verifier used as a rejecting gate by some construction body at all?
    users = sorted(q for q in cands if any((t.resolved or t.callee) in G for _, t in prog.bodies[q].calls()))
    ctx.ob('SAMECERT', 'premise', cfg, True, 'brute-force verifiers: %s; construction bodies that gate on one: %s' % (
        sorted(g.rsplit('::', 1)[-1] for g in G), [u.rsplit('::', 1)[-1] for u in users][:6]), nontrivial=bool(users))
    if not users:
        return
    B, detail = gate.certified_set(prog, lv, G, cands)
    ctx.floor('construction bodies that reject candidates on the brute-force verifier', 1, len(users), cfg)
    for q in users:
        b = prog.bodies[q]
        ctx.ob('SAMECERT', '%s|member' % (b.root or q), cfg, q in B,
               'every Ok exit of this re-checking body lies behind the brute-force verifier' if q in B else
               'this body re-checks candidates with the brute-force verifier but can also return Ok without it (escaping exits %s)'
               % detail.get(q, {}).get('escaping'), site='%s:%d' % (b.file, b.line))
    # roots: bodies outside B that build the value they return themselves (no call to another construction body lies
    # between the entry and the escaping Ok).  Wrappers that merely forward a root's Ok are not listed: they add nothing
    # and would make the finding depend on how many convenience constructors exist.
    for q in sorted(cands - B):
        b = prog.bodies[q]
        if '::tests::' in q or not b.file.startswith('src/') or not any((b.root or q).startswith(s_) for s_ in SCOPES):
            continue
        if 'rebuild_with_heuristic' in (b.root or q):
            continue        # the repair's rebuild is C08's business (its Ok is behind the repair post-condition)
        forwards = False
        for bb, t in b.calls():
            names = {n_ for n_ in (t.resolved, t.callee) if n_}
            if any(x in cands and x != q for x in names):
                forwards = True
        if forwards:
            continue
        ctx.ob('SAMECERT', '%s|own' % (b.root or q), cfg, False,
               'builds a triangulation and returns Ok behind the flip-based Level-4 check only (escaping exits %s); the '
               'shuffled-retry path does not accept that check as sufficient' % detail.get(q, {}).get('escaping'),
               site='%s:%d' % (b.file, b.line))


def run(ctx):
    ctx.rule('CERT', 'exported batch constructors return Ok only behind the success edge of a sound Delaunay verifier')
    ctx.rule('PLGATE', 'true edge of requires_vertex_links_at_completion passes vertex-link validation before Ok')
    ctx.rule('NODROP', 'Delaunay verifiers drop no checker result')
    for cfg in ctx.cfgs:
        prog = ctx.prog(cfg)
        lv = gate.Leaves(prog)
        L4 = set(tables.L4_VERIFY) | {tables.L4_BRUTE}
        for l in L4:
            ctx.anchor(cfg, l)
        import verdict
        verdict.rule(ctx, cfg, prog)
        S, off = gate.sound_validators(prog, lv, L4)
        # a verifier certifies only if it cannot answer Ok without having run a check: policy-gated helpers such
        # as maybe_check_after_insertion (Ok when the check policy does not fire) are not certifiers
        gates, skipped = gate.unconditional_validators(prog, lv, S, L4, zero_counters=(tables.T + 'number_of_cells',))
        ctx.info.setdefault('conditional_verifiers_not_used_as_certifiers', {})[cfg] = sorted(skipped)
        for q, bad in sorted(off.items()):
            b = prog.bodies[q]
            ctx.ob('NODROP', b.root or q, cfg, False,
                   '; '.join('%s: %s' % (n.rsplit('::', 1)[-1], why) for (_, n, why) in bad), site='%s:%d' % (b.file, b.line))
        ctx.ob('NODROP', 'verifiers', cfg, True, 'sound Delaunay verifiers: %s' % sorted(g.rsplit('::', 1)[-1] for g in gates))
        ctx.floor('sound Delaunay verifiers', 5, len(gates), cfg)
        cands = {q for q, b in prog.bodies.items()
                 if 'DelaunayTriangulation<' in b.locals[0] and b.locals[0].startswith('std::result::Result<')
                 and gate.is_pure(prog, q)}
        C, detail = gate.certified_set(prog, lv, gates, cands)
        n = 0
        for q in sorted(cands):
            b = prog.bodies[q]
            if b.kind == 'closure' or not b.exported or b.impl_trait:
                continue
            if not any(q.startswith(s) for s in SCOPES):
                continue
            n += 1
            ok = q in C
            d = detail.get(q, {})
            ctx.ob('CERT', q, cfg, ok,
                   'every Ok exit lies behind the success edge of a Delaunay verifier (directly or through certified callees)'
                   if ok else 'Ok exit(s) at blocks %s reachable without passing the success edge of a Delaunay verifier; '
                   'gating calls seen: %s' % (d.get('escaping'), [g[1].rsplit('::', 1)[-1] for g in d.get('gates', [])]),
                   site='%s:%d' % (b.file, b.line))
            if cfg == ctx.cfgs[0] and n <= 4:
                ctx.sample({'rule': 'CERT', 'constructor': q, 'certified': ok})
        ctx.floor('exported batch constructors', 8, n, cfg)
        _samecert(ctx, cfg, prog, lv, cands)
        # TWIN: every constructor path exists twice (plain / *_with_construction_statistics); the twins must certify with
        # the same verifiers (a cheaper verifier in one of them silently weakens that half of the API)
        ctx.rule('TWIN', 'a function and its *_with_construction_statistics twin gate their Ok on the same Delaunay verifiers')
        nt = 0
        SUF = '_with_construction_statistics'
        for q in sorted(prog.bodies):
            if not q.endswith(SUF) or prog.bodies[q].kind == 'closure':
                continue
            base = q[:-len(SUF)]
            if base not in prog.bodies:
                # e.g. new_with_options_and_construction_statistics <-> new_with_options
                alt = q.replace('_and_construction_statistics', '')
                base = alt if alt in prog.bodies and alt != q else None
            if base is None:
                continue

            def verifier_calls(fq):
                out = set()
                for bq in [fq] + [c for c in prog.children.get(fq, [])]:
                    bb_ = prog.bodies.get(bq)
                    if bb_ is None:
                        continue
                    for _, t in bb_.calls():
                        for nme in (t.resolved, t.callee):
                            if nme in gates:
                                out.add(nme)
                return out
            va, vb = verifier_calls(base), verifier_calls(q)
            if not va and not vb:
                continue
            nt += 1
            ctx.ob('TWIN', base, cfg, va == vb,
                   'both use %s' % sorted(x.rsplit('::', 1)[-1] for x in va) if va == vb else
                   '%s certifies with %s but its statistics twin with %s' % (
                       base.rsplit('::', 1)[-1], sorted(x.rsplit('::', 1)[-1] for x in va), sorted(x.rsplit('::', 1)[-1] for x in vb)),
                   site='%s:%d' % (prog.bodies[q].file, prog.bodies[q].line))
        ctx.floor('constructor twins that call a verifier directly', 2, nt, cfg)
        import twins
        twins.check(ctx, cfg, prog, 'TWIN', lambda q_: q_.startswith(DTQ) and not q_.rsplit('::', 1)[-1].startswith('insert'), 3)
        ctx.info.setdefault('certified_bodies', {})[cfg] = sorted(C)
        # PLGATE
        m = 0
        for q, b in sorted(prog.bodies.items()):
            if q == tables.PRED_VLINK_DONE or q == tables.TR + 'validate_at_completion':
                continue
            true_edges = gate.predicate_edges(b, {tables.PRED_VLINK_DONE}, True)
            if not true_edges:
                continue
            if flow.type_kind(b.locals[0]) != 'result':
                continue
            m += 1
            starts = sorted({d_ for (_, d_) in true_edges})
            r = gate.must_pass(prog, lv, b, set(tables.L3_VERTEX), mode='any', starts=starts)
            ctx.ob('PLGATE', b.root or q, cfg, r['ok'],
                   'from the true edge of requires_vertex_links_at_completion: ' + gate.describe(b, r),
                   site='%s:%d' % (b.file, b.line))
        ctx.floor('construction sites consulting requires_vertex_links_at_completion', 2, m, cfg)
    import c08
    import idkeep
    ctx.rule('IDENT', 'vertices re-created during construction (perturbation retry) keep the input UUID and data')
    for cfg in ctx.cfgs:
        prog = ctx.prog(cfg)
        c08._postorient(ctx, cfg, prog, gate.Leaves(prog), constructors=True)
        idkeep.check(ctx, cfg, prog, ctx.mod(cfg), 'IDENT', lambda o: o.rsplit('::', 1)[-1] == 'insert_transactional', 1)
        idkeep.check_first_attempt(ctx, cfg, prog, ctx.mod(cfg), 'IDENT')
        import elemkeep
        ctx.rule('ELEMKEEP', 'batch de-duplication hands every input vertex on or drops it behind a duplicate verdict')
        elemkeep.check(ctx, cfg, prog, ctx.mod(cfg), 'ELEMKEEP')
        elemkeep.check_orderings(ctx, cfg, prog, ctx.mod(cfg), 'ELEMKEEP')
        import statsync
        ctx.rule('STATSYNC', 'the per-insertion statistics record the same outcome that is reported (per build profile)')
        statsync.check(ctx, cfg, prog, 'STATSYNC', ctx.mod(cfg))
        ctx.rule('STATSRC', 'statistics returned with a triangulation come from the construction call that produced it')
        statsync.check_src(ctx, cfg, prog, 'STATSRC', ctx.mod(cfg))
        import hintstale
        ctx.rule('HINTSTALE', 'a stale cell hint reaches the same fallback scan as no hint')
        hintstale.check(ctx, cfg, prog, ctx.mod(cfg), 'HINTSTALE')
    ctx.note('TopologyGuarantee::Pseudomanifold has no Level-3 gate at completion (relies on ValidationPolicy::DebugOnly, '
             'i.e. nothing in release): observation, not a rule')
    return ctx.finish(EXPLANATION)
