"""C16 — toroidal wrapping (structural clauses).

 (a) POSTGUARD  the result of every `f64::rem_euclid` is compared with the modulus before it is
                used: std documents that the result can equal the modulus for tiny negative
                inputs, which breaks the half-open box and idempotence;
 (b) WRAPGATE   every exported `&mut DelaunayTriangulation` operation that places a caller-supplied
                vertex by point location reaches coordinate canonicalisation before the vertex can
                reach storage ("later insertions are wrapped the same way");
 (c) BUILDER    in the builder, every toroidal arm canonicalises the vertices (success edge) before
                construction, constructs from the canonicalised vertices, and records the global
                topology before returning Ok.
 (d) TOPOKEEP   "later insertions are wrapped the same way" needs the recorded global topology to
                survive every operation: no exported `&mut` operation other than
                `set_global_topology` changes `global_topology` on any path; an operation that
                replaces the whole receiver (`*self = candidate`) must get the candidate from a
                builder that copies `self.tri.global_topology` into it before every Ok.
Not decided: the periodic image-point mode (closedness, Euler characteristic, offsets), congruence
modulo the period as a numerical statement."""
import flow
import gate
import pair
import txn
import valueflow
from pair import DT

EXPLANATION = (
    "POSTGUARD: for every call of f64::rem_euclid in the crate the destination must flow into an ordered "
    "comparison against the modulus operand (re-clamp) — a necessary condition for the half-open box and "
    "idempotence clauses. WRAPGATE: must-pass-through from entry to the call chain that reaches "
    "Tds::insert_vertex_with_mapping via a call reaching GlobalTopologyModel::canonicalize_point_in_place, for "
    "every exported &mut DelaunayTriangulation operation that takes a Vertex and reaches point location. BUILDER: "
    "dominance and value-flow checks inside DelaunayTriangulationBuilder::build_with_kernel. TOPOKEEP: effect "
    "analysis (the C03 SIDE dataflow on the field Triangulation.global_topology): only set_global_topology may write "
    "it; whole-receiver replacements must be fed by a builder that copies the field. The image-point "
    "periodic mode is not decided.")

REM = 'std::f64::<impl f64>::rem_euclid'
WRAP = 'topology::traits::global_topology_model::GlobalTopologyModel::canonicalize_point_in_place'
INSV = 'core::triangulation_data_structure::Tds::insert_vertex_with_mapping'
LOCATE = {'core::algorithms::locate::locate', 'core::algorithms::locate::locate_with_stats'}
BUILD = 'core::builder::DelaunayTriangulationBuilder::build_with_kernel'
CANON = 'core::builder::DelaunayTriangulationBuilder::canonicalize_vertices'
SETTOPO = 'core::delaunay_triangulation::DelaunayTriangulation::set_global_topology'
GT = 'topology::traits::topological_space::GlobalTopology'


def run(ctx):
    ctx.rule('POSTGUARD', 'the result of f64::rem_euclid is compared with the modulus before use')
    ctx.rule('WRAPGATE', 'insertion by point location reaches coordinate canonicalisation before vertex storage')
    ctx.rule('BUILDER', 'toroidal builder arms: canonicalise -> construct from canonical vertices -> set_global_topology -> Ok')
    for cfg in ctx.cfgs:
        prog = ctx.prog(cfg)
        mod = ctx.mod(cfg)
        _postguard(ctx, cfg, prog, mod)
        _preguard(ctx, cfg, prog, mod)
        _wrapgate(ctx, cfg, prog, mod)
        _builder(ctx, cfg, prog, mod)
        _topokeep(ctx, cfg, prog, mod)
        _rewrap(ctx, cfg, prog, mod)
        _optpass(ctx, cfg, prog, mod)
        _buildtopo(ctx, cfg, prog, mod)
        _periodgate(ctx, cfg, prog, mod)
        import idkeep
        ctx.rule('IDENT', 'wrapped vertices keep the UUID and data of the input vertex they replace')
        idkeep.check(ctx, cfg, prog, mod, 'IDENT',
                     lambda o: o.rsplit('::', 1)[-1] in ('canonicalize_vertices', 'build_periodic', 'canonicalize_vertex_for_insertion'), 2)
    return ctx.finish(EXPLANATION)


INSERT_TX = 'core::triangulation::Triangulation::insert_transactional'
VNEW = 'core::vertex::Vertex::new_with_uuid'


PERIODIC = 'core::builder::DelaunayTriangulationBuilder::build_periodic'
# acceptance variables of the 2-D periodic quotient selection: (debug name, what a non-zero value means)
PERIOD_VARS = {'best_boundary_count': 'boundary facets left in the selected quotient',
               'best_abs_chi': '|Euler characteristic| of the selected quotient'}


def _periodgate(ctx, cfg, prog, mod):
    """PERIODGATE: "no boundary facets and Euler characteristic zero" are two independent acceptance tests of the 2-D
    periodic mode.  For each acceptance variable, from every edge on which a comparison with the literal 0 found it
    non-zero, no success exit of `build_periodic` is reachable (each test refuses on its own; `a > 0 && chi != 0` lets a
    selection with boundary facets through whenever its chi happens to be 0)."""
    ctx.rule('PERIODGATE', 'the periodic mode returns Ok only when the boundary count and |chi| of the selected quotient '
                           'are each zero')
    b = ctx.anchor(cfg, PERIODIC)
    if b is None:
        return
    exits = {e['bb'] for e in gate.success_exit_blocks(b)}
    byname = {v: k for k, v in b.names.items()}
    for var, what in sorted(PERIOD_VARS.items()):
        L = byname.get(var)
        site = '%s:%d' % (b.file, b.line)
        if L is None:
            ctx.ob('ANCHOR', 'missing|%s|%s' % (PERIODIC, var), cfg, False,
                   'acceptance variable `%s` (%s) not found in build_periodic (renamed or removed): fail closed' % (var, what))
            continue
        edges = set()
        n = 0
        for blk in b.blocks:
            if blk.cleanup:
                continue
            for s_ in blk.stmts:
                if s_.kind != 'A' or s_.rv.k != 'bin' or not s_.place.is_local() or len(s_.rv.ops) != 2:
                    continue
                op = s_.rv.raw.get('op')
                a_, b_ = s_.rv.ops

                def is_var(o):
                    if o.place is None or not o.place.is_local():
                        return False
                    l = o.place.local
                    for _ in range(3):
                        if l == L:
                            return True
                        d = b.single_def(l)
                        if d is None or d[1] == 'term' or d[2].rv.k != 'use' or not d[2].rv.ops or d[2].rv.ops[0].place is None:
                            return False
                        l = d[2].rv.ops[0].place.local
                    return l == L
                zero = lambda o: o.kind == 'k' and o.int_value() == 0
                if is_var(a_) and zero(b_) and op in ('Gt', 'Ne', 'Eq', 'Le', 'Ge', 'Lt'):
                    nonzero_when = {'Gt': True, 'Ne': True, 'Eq': False, 'Le': False}.get(op)
                elif zero(a_) and is_var(b_) and op in ('Lt', 'Ne', 'Eq', 'Ge'):
                    nonzero_when = {'Lt': True, 'Ne': True, 'Eq': False, 'Ge': False}.get(op)
                else:
                    continue
                if nonzero_when is None:
                    continue
                # the switch on this bool
                t = blk.term
                if t.k == 'switch' and t.discr.place is not None and t.discr.place.is_local() and t.discr.place.local == s_.place.local:
                    # only the final tests: a comparison inside the search loop (the variable is re-assigned afterwards)
                    # decides whether to go on searching, not whether to accept
                    later = flow.reach_edges(b, b.succs(blk.idx))
                    if any(bb_ in later for (bb_, _, _) in b.defs.get(L, [])):
                        continue
                    n += 1
                    listed = {v: tg for v, tg in t.values}
                    tgt_true = t.otherwise if 0 in listed else listed.get(1, t.otherwise)
                    tgt_false = listed.get(0, t.otherwise)
                    edges.add((blk.idx, tgt_true if nonzero_when else tgt_false))
        if not n:
            ctx.ob('PERIODGATE', '%s|%s' % (PERIODIC, var), cfg, False,
                   '`%s` (%s) is never compared with 0: the periodic mode has no acceptance test on it' % (var, what), site=site)
            continue
        reach = flow.reach_edges(b, [d for (_, d) in edges])
        esc = sorted(exits & reach)
        ctx.ob('PERIODGATE', '%s|%s' % (PERIODIC, var), cfg, not esc,
               'from the non-zero side of the %d test(s) on `%s` no success exit is reachable' % (n, var) if not esc else
               'a success exit (block %s) is reachable although `%s` (%s) was found non-zero: the test does not refuse on its own'
               % (esc[:3], var, what), site=site)


def _rewrap(ctx, cfg, prog, mod):
    """REWRAP: the insertion layer may move the point after the caller-facing wrap: the degeneracy retry re-creates the
    vertex at perturbed coordinates.  A point wrapped onto a face of the box and then perturbed by -1e-8 leaves the
    half-open box, so every re-creation of the vertex inside `insert_transactional` must be dominated by the success
    edge of a canonicalisation (`GlobalTopologyModel::canonicalize_point_in_place` or a must-canonicalise function)."""
    ctx.rule('REWRAP', 'a vertex re-created at perturbed coordinates is wrapped into the fundamental domain again')
    b = ctx.anchor(cfg, INSERT_TX)
    if b is None:
        return
    lv = gate.Leaves(prog)
    G = _wrap_gates(prog, lv)
    sites = [bb for bb, t in b.calls() if (t.resolved or t.callee) == VNEW]
    cflows = flow.all_call_flows(b)
    via = set()
    seen = []
    for bb, t in b.calls():
        names = {x for x in (t.resolved, t.callee) if x}
        if WRAP in names or names & G or any(n.endswith('::canonicalize_point_in_place') for n in names):
            via |= cflows[bb].ok_edges
            seen.append(t.line)
    reach = flow.reach_edges_cp(b, [0], avoid_edges=via)
    bad = [x for x in sites if x in reach]
    ok = bool(sites) and bool(via) and not bad
    ctx.ob('REWRAP', INSERT_TX, cfg, ok,
           '%d re-creation site(s) of the perturbed vertex; canonicalisation calls at lines %s; %s' % (
               len(sites), seen or 'none',
               'each site lies behind the success edge of one' if ok else
               'a perturbed vertex is re-created without being wrapped again: on a toroidal triangulation a point wrapped onto a '
               'face and perturbed outwards is stored outside the half-open box'), site='%s:%d' % (b.file, b.line))
    ctx.floor('perturbed-vertex re-creation sites in insert_transactional', 1, len(sites), cfg)


BUILD_WK = 'core::builder::DelaunayTriangulationBuilder::build_with_kernel'
BUILDER_SETTINGS = ('construction_options', 'topology_guarantee')


def _optpass(ctx, cfg, prog, mod):
    """OPTPASS: "the result is otherwise a certified triangulation of the wrapped points" - built with what the caller
    configured.  In `build_with_kernel` every call that returns a `Result<DelaunayTriangulation ..>` (one per arm:
    Euclidean, toroidal wrapping, toroidal periodic) receives the builder's `construction_options` and
    `topology_guarantee` (its arguments' backward slices read those fields of `self`, or it receives `self`)."""
    import valueflow
    ctx.rule('OPTPASS', 'every builder arm hands the configured construction options and topology guarantee to its constructor')
    b = ctx.anchor(cfg, BUILD_WK)
    if b is None:
        return
    al = mod.aliases(BUILD_WK)
    n = 0
    for bb, t in b.calls():
        name = t.resolved or t.callee or ''
        if name not in prog.bodies or t.dest is None or not t.dest.is_local():
            continue
        rt = b.locals[t.dest.local]
        if not (rt.startswith('std::result::Result<core::delaunay_triangulation::DelaunayTriangulation<')):
            continue
        n += 1
        fields = set()
        whole_self = False
        for o in t.args:
            if o.place is None:
                continue
            tt = al.operand_target(o)
            if tt is not None and tt[0] == 1 and not tt[1]:
                whole_self = True
            for x in valueflow.sources(b, al, o.place.local):
                if x[0] == 'place' and x[1][0] == 1 and x[1][1]:
                    fields.add(x[1][1][0])
        missing = [f for f in BUILDER_SETTINGS if f not in fields and not whole_self]
        ctx.ob('OPTPASS', '%s|%s' % (BUILD_WK, name.rsplit('::', 1)[-1]), cfg, not missing,
               'constructor call %s receives %s' % (name.rsplit('::', 1)[-1],
                   'the whole builder' if whole_self else 'builder fields %s' % sorted(fields)) + (
                   '' if not missing else '; the configured %s never reach(es) it: this arm builds with defaults, whatever the caller set '
                   '(de-duplication, ordering, retry policy matter most where wrapping creates coincident points)' % missing),
               site='%s:%d' % (b.file, t.line))
    ctx.floor('constructor calls in build_with_kernel', 2, n, cfg)


def _buildtopo(ctx, cfg, prog, mod):
    """BUILDTOPO: the insertion layer wraps a perturbed retry vertex again (REWRAP) - but only with the topology the
    triangulation under construction knows.  A builder arm that canonicalises the input and then hands it to a
    constructor must therefore give that constructor the topology as well (an argument other than the vertex slice
    derives from the GlobalTopology value / its model); recording the topology on the finished triangulation
    afterwards leaves every retry during the bulk build unwrapped."""
    import valueflow
    ctx.rule('BUILDTOPO', 'a builder arm that constructs from canonicalised vertices hands the topology to the constructor')
    b = prog.bodies.get(BUILD_WK)
    if b is None:
        return
    al = mod.aliases(BUILD_WK)
    n = 0
    for bb, t in b.calls():
        name = t.resolved or t.callee or ''
        if name not in prog.bodies or t.dest is None or not t.dest.is_local():
            continue
        if not b.locals[t.dest.local].startswith('std::result::Result<core::delaunay_triangulation::DelaunayTriangulation<'):
            continue
        vert_args = []
        other = []
        for o in t.args:
            if o.place is None:
                continue
            ty = b.locals[o.place.local]
            (vert_args if 'core::vertex::Vertex<' in ty else other).append(o)
        from_canon = any(x[0] == 'call' and (x[1].resolved or x[1].callee) == CANON
                         for o in vert_args for x in valueflow.sources(b, al, o.place.local))
        if not from_canon:
            continue
        n += 1
        knows = False
        for o in other:
            tt = al.operand_target(o)
            if tt is not None and tt[0] == 1 and not tt[1]:
                knows = True          # the whole builder
            for x in valueflow.sources(b, al, o.place.local):
                if x[0] == 'call' and (x[1].callee or x[1].resolved or '').rsplit('::', 1)[-1] == 'model':
                    knows = True
            for (_, didx, node) in b.defs.get(o.place.local, []):
                if didx != 'term' and node.rv.k == 'agg' and 'GlobalTopology' in str(node.rv.raw.get('adt', '')):
                    knows = True
            if 'GlobalTopology' in b.locals[o.place.local] or 'ToroidalModel' in b.locals[o.place.local] or \
                    'GlobalTopologyModel' in b.locals[o.place.local]:
                knows = True
        ctx.ob('BUILDTOPO', '%s|%s' % (BUILD_WK, name.rsplit('::', 1)[-1]), cfg, knows,
               'constructor %s built from canonicalised vertices %s' % (name.rsplit('::', 1)[-1],
                   'receives the topology' if knows else
                   'does not receive the topology (it is recorded on the result afterwards): a vertex that the bulk build re-creates '
                   'at perturbed coordinates is not wrapped again and can be stored outside the half-open box'),
               site='%s:%d' % (b.file, t.line))
    ctx.floor('constructor calls fed by canonicalize_vertices', 1, n, cfg)


TOPO_WRITERS = {'set_global_topology': 'the documented setter'}


def _topokeep(ctx, cfg, prog, mod):
    import c11
    import side
    ctx.rule('TOPOKEEP', 'no exported &mut operation other than set_global_topology changes global_topology; whole-receiver '
                         'replacements copy it from the receiver')
    keep, sites = side.keep_table(prog, mod)
    res, eng = side.engine_for(prog, mod, 'global_topology', {}, keep)
    eng.solve()
    E = c11.entry_set(prog, res)
    ctx.floor('exported &mut operations holding a global_topology', 20, len(E), cfg)
    writers = 0
    for (q, i) in E:
        b = prog.bodies[q]
        summ = eng.summary[(q, i)]
        changed = any(m for (_, m) in summ)
        name = q.rsplit('::', 1)[-1]
        if name in TOPO_WRITERS:
            writers += 1 if changed else 0
            ctx.ob('TOPOKEEP', q + '|writer', cfg, True, 'allowed writer (%s): %s' % (TOPO_WRITERS[name], sorted(summ)),
                   nontrivial=False, site='%s:%d' % (b.file, b.line))
            continue
        detail = 'outcomes (exit class, global_topology changed): %s' % sorted(summ)
        if changed:
            r = eng.own_root(q, i, set()) if txn.dirty_fail(summ) else None
            detail += ('; global_topology can be changed by this operation: later insertions would no longer be wrapped '
                       '(or be wrapped differently)')
            if r:
                detail += '; source: %s' % r['source']
        ctx.ob('TOPOKEEP', q, cfg, not changed, detail, site='%s:%d' % (b.file, b.line))
    for owner, (ok, d) in sorted(keep.get('global_topology', {}).items()):
        ctx.ob('TOPOKEEP', 'replace|' + owner, cfg, ok, 'whole-receiver replacement in %s: %s' % (owner.rsplit('::', 1)[-1], d))
    ctx.floor('global_topology writers found (positive control: the setter is seen writing)', 2, writers, cfg)
    ctx.floor('whole-receiver replacement sites', 1, len(sites), cfg)


VALIDATE_CFG = 'validate_configuration'


def _preguard(ctx, cfg, prog, mod):
    """PREGUARD: "all positive finite period vectors": a non-positive or non-finite period must be refused before it
    is used as a modulus (rem_euclid by 0 is NaN, by a negative period leaves the box): every rem_euclid call is
    dominated by an ordered comparison on the modulus value or by the success edge of validate_configuration."""
    ctx.rule('PREGUARD', 'the modulus of every rem_euclid is checked (positive) before use')
    lv = gate.Leaves(prog)
    n = 0
    for q, b in sorted(prog.bodies.items()):
        for bb, t in b.calls():
            if not _is_rem(t) or len(t.args) < 2:
                continue
            n += 1
            mods = _copies_back(b, t.args[1])
            # also the place the modulus was loaded from (e.g. self.domain[axis] read twice)
            cmp_locals = set()
            for blk in b.blocks:
                for s_ in blk.stmts:
                    if s_.kind == 'A' and s_.rv.k == 'bin' and s_.rv.raw.get('op') in ('Lt', 'Le', 'Gt', 'Ge') and s_.place.is_local() and \
                            any(o.place is not None and o.place.is_local() and o.place.local in mods for o in s_.rv.ops):
                        cmp_locals.add(s_.place.local)
            guards = [blk.idx for blk in b.blocks if blk.term.k == 'switch' and blk.term.discr.place is not None and
                      blk.term.discr.place.is_local() and blk.term.discr.place.local in cmp_locals]
            ok = any(b.dominates(g, bb) for g in guards)
            how = 'an ordered comparison on the modulus'
            if not ok:
                via = set()
                for cb_, ct in b.calls():
                    names = [x for x in (ct.resolved, ct.callee) if x]
                    if any(x.rsplit('::', 1)[-1] == VALIDATE_CFG or (x in prog.bodies and any(
                            y.rsplit('::', 1)[-1] == VALIDATE_CFG for y in lv.reach_set(x))) for x in names):
                        via |= flow.call_flow(b, cb_).ok_edges
                if via and bb not in flow.reach_edges(b, [0], avoid_edges=via):
                    ok = True
                    how = 'the success edge of validate_configuration'
            ctx.ob('PREGUARD', b.root or q, cfg, ok,
                   'rem_euclid at line %d is dominated by %s' % (t.line, how) if ok else
                   'rem_euclid at line %d uses a modulus that no dominating test has checked to be positive: a zero / negative / '
                   'non-finite period yields NaN or a value outside the box' % t.line, site='%s:%d' % (b.file, t.line))
    ctx.floor('rem_euclid sites (PREGUARD)', 3, n, cfg)


def _is_rem(t):
    n = t.resolved or t.callee or ''
    return n.endswith('::rem_euclid') and ('f64' in n or 'f32' in n)


def _postguard(ctx, cfg, prog, mod):
    n = 0
    for q, b in prog.bodies.items():
        for bb, t in b.calls():
            if not _is_rem(t):
                continue
            n += 1
            al = mod.aliases(q)
            d = t.dest.local if t.dest is not None and t.dest.is_local() else None
            modulus = t.args[1] if len(t.args) > 1 else None
            ok = False
            why = 'no ordered comparison between the result and the modulus'
            if d is not None and modulus is not None:
                mod_locals = _copies_back(b, modulus)
                res_locals = _copies_fwd(b, d)
                for blk in b.blocks:
                    if blk.cleanup:
                        continue
                    for s in blk.stmts:
                        if s.kind == 'A' and s.rv.k == 'bin' and s.rv.raw['op'] in ('Lt', 'Le', 'Gt', 'Ge'):
                            ls = [o.place.local if o.place is not None and o.place.is_local() else None for o in s.rv.ops]
                            if (ls[0] in res_locals and ls[1] in mod_locals) or (ls[1] in res_locals and ls[0] in mod_locals):
                                ok = True
                                why = 're-clamped: %s at line %d' % (s.rv.raw['op'], s.line)
            root = b.root or q
            ctx.ob('POSTGUARD', root, cfg, ok,
                   'rem_euclid at %s:%d: %s%s' % (b.file, t.line, why, '' if ok else
                                                   ' — for a tiny negative input the result equals the period, so the '
                                                   'wrapped coordinate leaves the half-open box [0, L)'),
                   site='%s:%d' % (b.file, t.line))
            if cfg == ctx.cfgs[0]:
                ctx.sample({'rule': 'POSTGUARD', 'function': q, 'line': t.line, 'reclamped': ok})
    ctx.floor('rem_euclid call sites', 3, n, cfg)


def _copies_fwd(b, local):
    """local and everything it is copied/moved/cast into (or referenced from)."""
    out = {local}
    uses = flow._collect_uses(b)
    work = [local]
    while work:
        l = work.pop()
        for (ubb, _, node, how) in uses.get(l, []):
            if how == 'stmt' and node.rv.k in ('use', 'cast', 'ref', 'deref_copy') and node.place.is_local():
                if node.place.local not in out:
                    out.add(node.place.local)
                    work.append(node.place.local)
    return out


def _copies_back(b, op):
    """locals that hold the same value as operand `op` (its definition chain of copies, and the
    forward copies of each)."""
    if op.place is None:
        return set()
    roots = {op.place.local}
    work = [op.place.local]
    while work:
        l = work.pop()
        for (bb, idx, node) in b.defs.get(l, []):
            if idx != 'term' and node.rv.k in ('use', 'cast', 'deref_copy') and node.rv.ops and node.rv.ops[0].place is not None:
                src = node.rv.ops[0].place
                if src.is_local() and src.local not in roots:
                    roots.add(src.local)
                    work.append(src.local)
            elif idx != 'term' and node.rv.k == 'deref_copy':
                pass
    out = set()
    for r in roots:
        out |= _copies_fwd(b, r)
    # dereferenced reads of the same place (`*period` read twice into two temps)
    if op.place is not None and not op.place.is_local():
        pass
    for l in list(roots):
        d = b.single_def(l)
        if d is not None and d[1] != 'term' and d[2].rv.k == 'use' and d[2].rv.ops[0].place is not None:
            src = d[2].rv.ops[0].place
            if not src.is_local():
                # every other local loaded from the same place
                for blk in b.blocks:
                    for s in blk.stmts:
                        if s.kind == 'A' and s.rv.k == 'use' and s.rv.ops[0].place is not None and \
                                s.rv.ops[0].place.key() == src.key() and s.place.is_local():
                            out |= _copies_fwd(b, s.place.local)
    return out


PERIODIC_DOMAIN = 'topology::traits::global_topology_model::GlobalTopologyModel::periodic_domain'


def _nonperiodic_edges(prog, body):
    """Edges taken when `periodic_domain()` answered None (no periods: canonicalisation is the identity)."""
    edges = set()
    for bb, t in body.calls():
        n = t.resolved or t.callee or ''
        if n == PERIODIC_DOMAIN or n.endswith('::periodic_domain'):
            edges |= flow.call_flow(body, bb).err_edges
    return edges


def _wrap_gates(prog, lv):
    """Functions that cannot return success without the coordinates having passed
    canonicalize_point_in_place (greatest fixed point; the only accepted bypass is the edge taken
    when the topology has no periodic domain)."""
    cands = {q for q, b in prog.bodies.items() if flow.type_kind(b.locals[0]) == 'result' and WRAP in lv.reach_set(q)}
    C = set(cands)
    changed = True
    while changed:
        changed = False
        for q in sorted(C):
            b = prog.bodies[q]
            cflows = flow.all_call_flows(b)
            via = set()
            gcalls = []
            for bb, t in b.calls():
                names = {n for n in (t.resolved, t.callee) if n}
                if WRAP in names or names & (C - {q}) or any(n.endswith('::canonicalize_point_in_place') for n in names):
                    cf = cflows[bb]
                    if cf.ok_edges or cf.forward_blocks:
                        via |= cf.ok_edges
                        gcalls.append(bb)
            targets = [e['bb'] for e in gate.success_exit_blocks(b, forwarded_from=gcalls)]
            reach = flow.reach_edges_cp(b, [0], avoid_edges=via | _nonperiodic_edges(prog, b))
            if not gcalls or any(t_ in reach for t_ in targets):
                C.discard(q)
                changed = True
    return C


def _wrapgate(ctx, cfg, prog, mod):
    lv = gate.Leaves(prog)
    res = pair.Resources(prog, mod)
    G = _wrap_gates(prog, lv)
    ctx.info.setdefault('wrap_gates', {})[cfg] = sorted(G)
    n = 0
    for q, b in sorted(prog.bodies.items()):
        if b.kind == 'closure' or not b.exported:
            continue
        rs = [r for r in res.res.get(q, []) if r['mut'] and r['param'] is not None and
              pair.pointee_head(b.locals[r['param']])[0] == DT]
        if not rs:
            continue
        if not any(b.locals[i].startswith('core::vertex::Vertex<') for i in range(1, b.nargs + 1)):
            continue
        reach = lv.reach_set(q)
        if INSV not in reach or not (reach & LOCATE):
            continue
        n += 1
        # calls (incl. closure creations) from which vertex storage is reachable
        targets = []
        for bb, t in b.calls():
            cands = [x for x in (t.resolved, t.callee) if x]
            if any(c == INSV or (c in prog.bodies and INSV in lv.reach_set(c)) for c in cands):
                targets.append(bb)
        for blk in b.blocks:
            if blk.cleanup:
                continue
            for s in blk.stmts:
                if s.kind == 'A' and s.rv.k == 'agg' and s.rv.raw.get('ak') == 'closure':
                    cq = s.rv.raw['def']
                    if cq in prog.bodies and INSV in lv.reach_set(cq):
                        targets.append(blk.idx)
        # gates: success edges of calls to WRAP itself or to a must-canonicalise function
        cflows = flow.all_call_flows(b)
        via = set()
        gates_seen = []
        for bb, t in b.calls():
            names = {x for x in (t.resolved, t.callee) if x}
            if WRAP in names or names & G:
                via |= cflows[bb].ok_edges
                gates_seen.append((t.resolved or t.callee).rsplit('::', 1)[-1])
        reach_b = flow.reach_edges_cp(b, [0], avoid_edges=via | _nonperiodic_edges(prog, b))
        esc = [x for x in targets if x in reach_b]
        ok = bool(gates_seen) and not esc
        detail = 'calls leading to vertex storage: blocks %s; canonicalisation gates (must-canonicalise functions): %s' % (
            sorted(set(targets))[:6], gates_seen or 'none')
        if not ok:
            detail += ('; the vertex reaches Tds::insert_vertex_with_mapping on a path on which '
                       'GlobalTopologyModel::canonicalize_point_in_place has not necessarily run (a helper that can return '
                       'the vertex unchanged is not a gate): on a toroidal triangulation a point can be stored unwrapped')
        ctx.ob('WRAPGATE', q, cfg, ok, detail, site='%s:%d' % (b.file, b.line))
        if cfg == ctx.cfgs[0]:
            ctx.sample({'rule': 'WRAPGATE', 'function': q, 'wrapped': ok})
    ctx.floor('exported DT operations inserting a vertex by point location', 2, n, cfg)
    ctx.floor('must-canonicalise functions', 1, len(G), cfg)


def _builder(ctx, cfg, prog, mod):
    b = ctx.anchor(cfg, BUILD)
    if b is None:
        return
    lv = gate.Leaves(prog)
    al = mod.aliases(BUILD)
    starts = []
    for blk in b.blocks:
        if blk.cleanup:
            continue
        for s in blk.stmts:
            if s.kind == 'A' and s.rv.k == 'agg' and s.rv.raw.get('adt') == GT and s.rv.raw.get('variant') == 'Toroidal':
                starts.append(blk.idx)
    ctx.floor('toroidal arms in build_with_kernel', 2, len(starts), cfg)
    site = '%s:%d' % (b.file, b.line)
    for st in starts:
        line = b.blocks[st].term.line
        key = '%s|arm%d' % (BUILD, starts.index(st))
        # 1. canonicalise (success edge) before any Ok
        r = gate.must_pass(prog, lv, b, {WRAP}, mode='any', starts=[st])
        ctx.ob('BUILDER', key + '|canonicalize', cfg, r['ok'], gate.describe(b, r), site=site)
        # 2. set_global_topology before any Ok
        setters = [bb for bb, t in b.calls() if (t.resolved or t.callee) == SETTOPO]
        ok_exits = [e['bb'] for e in flow.exit_assignments(b) if e['cls'] == 'ok']
        reach = flow.reach_edges(b, [st], avoid_blocks=set(setters))
        bad = [e for e in ok_exits if e in reach]
        ctx.ob('BUILDER', key + '|set_global_topology', cfg, bool(setters) and not bad,
               'Ok exits reachable from the toroidal arm without set_global_topology: %s' % bad, site=site)
        # 3. the constructor is fed the canonicalised vertices
        region = flow.reach_edges(b, [st])
        ctors = []
        for bb, t in b.calls():
            if bb not in region:
                continue
            ret = b.locals[t.dest.local] if t.dest is not None and t.dest.is_local() else ''
            name = t.resolved or t.callee or ''
            if name in prog.bodies and 'DelaunayTriangulation<' in ret and ret.startswith('std::result::Result<'):
                ctors.append((bb, t))
        good = True
        notes = []
        for bb, t in ctors:
            fed = False
            for o in t.args:
                if o.place is None:
                    continue
                tg = al.operand_target(o)
                roots = [o.place.local] + ([tg[0]] if tg else [])
                for rl in roots:
                    srcs = valueflow.sources(b, al, rl)
                    if any(l[0] == 'call' and (l[1].resolved or l[1].callee) == CANON for l in srcs):
                        fed = True
            notes.append('%s@L%d %s' % ((t.resolved or t.callee or '?').rsplit('::', 1)[-1], t.line,
                                        'gets canonical vertices' if fed else 'does NOT get the canonicalised vertices'))
            good = good and fed
        ctx.ob('BUILDER', key + '|construct-from-canonical', cfg, bool(ctors) and good, '; '.join(notes), site=site)
