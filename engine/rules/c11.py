"""C11 — hull staleness (structural clause).

Decided here (and only this):
 (a) PAIR   every exported `&mut` operation on a live triangulation that can add or remove a cell
            or a vertex (or replace the whole Tds) bumps the shared generation counter on that
            path;
 (b) GATE   every exported ConvexHull query that takes the triangulation touches its storage only
            behind the fresh edge of a comparison between the hull's creation generation and the
            triangulation's current generation;
 (c) MONO   the generation counter is only ever incremented (fetch_add) or created;
 (d) REPLACE whole-Tds replacements are classified (snapshot restore / table entry).
Not decided: that the hull is the true hull, visibility answers, in-place edits that do not
change the cell or vertex key set."""
import flow
import pair
import valueflow
from pair import TDS, TRI, DT

EXPLANATION = (
    "Staleness clause of C11 only. PAIR: for every exported function with a `&mut Triangulation` / "
    "`&mut DelaunayTriangulation` parameter, an interprocedural path-sensitive dataflow over MIR "
    "tracks M (a cell or vertex was inserted into / removed from storage, or the whole Tds was "
    "replaced) and B (AtomicU64::fetch_add on Tds.generation); callee summaries are sets of (m,b) "
    "outcomes; no return may be reachable with M and not B. GATE: in every exported ConvexHull method "
    "taking the triangulation, each call that receives a pointer into the triangulation must be "
    "unreachable from entry once the fresh edge of the generation comparison is removed. MONO: "
    "writes to Tds.generation are enumerated. The geometric half of C11 (true hull, visibility) is not "
    "decided.")

# whole-Tds replacements that are not snapshot restores (REPLACE table).  Keyed by the function
# (never a line); each needs a reason.
REPLACE_TABLE = {}

# A rebuilt Tds that replaces the Tds of a live triangulation must continue its generation counter
GEN_INHERIT = 'core::triangulation_data_structure::Tds::inherit_generation_from'

CORRELATED = {
    # external slot-map / hash-map `remove`: returns None iff the key was absent and then changes
    # nothing (documented semantics)
    '*::remove': 'some',
    # counts exactly the successful `cells.remove` calls (read: incremented only in the Some arm)
    'core::triangulation_data_structure::Tds::remove_cells_and_update_uuid_mappings': 'nonzero',
}

HULL = 'geometry::algorithms::convex_hull::ConvexHull'
GEN = 'core::triangulation_data_structure::Tds::generation'


def m_pred(rel):
    """Key-set changes: a write to the `cells` / `vertices` maps themselves."""
    return rel in (('cells',), ('vertices',))


def run(ctx):
    ctx.rule('PAIR', 'no return of an exported &mut operation on Triangulation/DelaunayTriangulation is reachable '
                     'with a cell/vertex key-set change (or whole-Tds replacement) and no generation bump')
    ctx.rule('GATE', 'in exported ConvexHull queries every call receiving the triangulation is dominated by the '
                     'fresh edge of (creation_generation == tds.generation())')
    ctx.rule('MONO', 'Tds.generation is written only by fetch_add or at construction')
    ctx.rule('REPLACE', 'every whole-Tds replacement is a snapshot restore or has a table entry')
    for cfg in ctx.cfgs:
        prog = ctx.prog(cfg)
        mod = ctx.mod(cfg)
        _pair(ctx, cfg, prog, mod)
        _gate(ctx, cfg, prog, mod)
        _freshsrc(ctx, cfg, prog, mod)
        _mono(ctx, cfg, prog, mod)
        _slotbump(ctx, cfg, prog, mod)
    if ctx.tier == 'thorough':
        import c05
        c05._witness(ctx)
    return ctx.finish(EXPLANATION)


# ------------------------------------------------------------------------------------------ SLOTBUMP
SWAP = 'core::cell::Cell::swap_vertex_slots'
BUMP = 'core::triangulation_data_structure::Tds::bump_generation'


# bodies that swap slots of stored cells and leave the bump to their caller, with the reason
SLOT_NOBUMP = {
    'core::triangulation::Triangulation::canonicalize_positive_orientation_for_cells':
        'called on cells created earlier in the same insertion / removal, whose insert_cell_with_mapping already advanced the '
        'generation: no hull can have seen them',
}


def _bumps(prog, name, memo, depth=2):
    if name == BUMP:
        return True
    if name in memo:
        return memo[name]
    memo[name] = False
    b = prog.bodies.get(name)
    r = False
    if b is not None and depth > 0:
        r = any(_bumps(prog, t.resolved or t.callee or '', memo, depth - 1) for _, t in b.calls())
    memo[name] = r
    return r


def _slotbump(ctx, cfg, prog, mod):
    """SLOTBUMP: a hull facet is stored as (cell key, facet index), so re-ordering the vertex slots of a stored cell
    changes what a hull handle means although no key set changes (PAIR does not see it).  From every call of
    `Cell::swap_vertex_slots` in library code every *success* return is behind a generation bump; a flag assigned the
    literal `true` next to the swap and tested before the bump is followed (bool constant propagation), a flag
    re-computed on every iteration is not."""
    import gate
    ctx.rule('SLOTBUMP', 'after a stored cell\'s vertex slots are swapped every success return is behind a generation bump')
    memo = {}
    n = 0
    for q, b in sorted(prog.bodies.items()):
        if '::tests::' in q or not b.file.startswith('src/') or q == SWAP:
            continue
        swaps = [(bb, t) for bb, t in b.calls() if (t.resolved or t.callee) == SWAP]
        if not swaps:
            continue
        bump_blocks = {bb for bb, t in b.calls() if _bumps(prog, t.resolved or t.callee or '', memo)}
        exits = {e['bb'] for e in gate.success_exit_blocks(b)}
        for bb, t in swaps:
            # a swap on a cell that is not yet stored (a local value being built) is not a change of the Tds
            al = mod.aliases(q)
            tt = al.operand_target(t.args[0]) if t.args else None
            if tt is not None and not (1 <= tt[0] <= b.nargs) and b.kind != 'closure':
                src_calls = [(l[1].resolved or l[1].callee or '') for l in valueflow.sources(b, al, t.args[0].place.local) if l[0] == 'call']
                if not any('get_mut' in c or 'cells_mut' in c or 'get_cell_by_key_mut' in c or 'IterMut' in c or 'iter_mut' in c or 'values_mut' in c for c in src_calls):
                    continue
            n += 1
            if not bump_blocks:
                why = SLOT_NOBUMP.get(b.root or q)
                ctx.ob('SLOTBUMP', '%s' % (b.root or q), cfg, False,
                       'vertex slots of stored cells are swapped at line %d and this body never bumps the generation' % t.line,
                       assumed=why, site='%s:%d' % (b.file, t.line))
                continue
            starts = [t.target] if t.target is not None else b.succs(bb)
            reach = flow.reach_edges_cp(b, starts, avoid_blocks=bump_blocks)
            esc = sorted(exits & reach)
            ctx.ob('SLOTBUMP', '%s' % (b.root or q), cfg, not esc,
                   'every success return after the slot swap at line %d passes a generation bump' % t.line if not esc else
                   'a success return (block %s) is reachable from the slot swap at line %d without a generation bump: hull handles '
                   '(cell key, facet index) change their meaning while the hull still counts as fresh' % (esc[:3], t.line),
                   site='%s:%d' % (b.file, t.line))
    ctx.floor('vertex-slot swaps on stored cells', 3, n, cfg)


# ------------------------------------------------------------------------------------------ PAIR

class GenEngine(pair.PairEngine):
    """B also = `new_tds.inherit_generation_from(&old_tds)` where old_tds is the resource's Tds:
    the replacement keeps counting on the shared counter (and bumps it)."""

    def extra_block_events(self, q, r, body, al, blk):
        t = blk.term
        if t.k == 'call' and (t.resolved or t.callee) == GEN_INHERIT and len(t.args) >= 2:
            tt = al.operand_target(t.args[1])
            tp = self.R.tds_path(r)
            if tt is not None and tp is not None and tt[0] == r['root'] and tt[1] == tp:
                return [('b', t.line)]
        return []


def entry_set(prog, res):
    """Exported functions holding a mutable Triangulation / DelaunayTriangulation resource."""
    out = []
    for q, b in prog.bodies.items():
        if b.kind == 'closure' or not b.exported:
            continue
        for i, r in enumerate(res.res.get(q, [])):
            if not r['mut'] or r['param'] is None:
                continue
            head, _ = pair.pointee_head(b.locals[r['param']])
            if head in (TRI, DT):
                out.append((q, i))
    return sorted(out)


def _pair(ctx, cfg, prog, mod):
    res = pair.Resources(prog, mod)
    ctx.anchor(cfg, GEN_INHERIT)
    eng = GenEngine(prog, mod, res, m_pred=m_pred, correlated=CORRELATED, replace_table=REPLACE_TABLE)
    eng.solve()
    E = entry_set(prog, res)
    ctx.floor('C11 entry set E (exported &mut ops on Triangulation/DelaunayTriangulation)', 20, len(E), cfg)
    ctx.note('MONO: the only non-fetch_add write to Tds.generation is inherit_generation_from, which installs the *previous* Tds counter (Arc::clone) and bumps it')
    # bump sites: bodies that directly perform the primitive
    bump_bodies = set()
    for (q, i), ev in eng.trace.items():
        for bb, evs in ev.items():
            if any(e[0] == 'b' for e in evs):
                bump_bodies.add(q)
    callers_of_bump = set()
    for q in bump_bodies:
        callers_of_bump |= prog.callers.get(q, set())
    ctx.floor('bodies calling the generation-bump primitive', 1, len(callers_of_bump), cfg)
    ctx.info.setdefault('bump_callers', {})[cfg] = len(callers_of_bump)
    ctx.info.setdefault('bump_primitive_bodies', {})[cfg] = sorted(bump_bodies)
    for (q, i) in E:
        summ = eng.summary[(q, i)]
        b = prog.bodies[q]
        nontrivial = any(m for (m, _) in summ)
        ok = (1, 0) not in summ
        detail = 'outcomes (mutated, bumped) at return: %s' % sorted(summ)
        if not ok:
            w = eng.witness_path(q, i)
            chain = pair.blame_chain(eng, q, i)
            detail += '; a path with a key-set change and no bump exists: ' + ' -> '.join(chain)
            if w:
                detail += '; events in %s: %s' % (q, [(e['event'], e['what'][-1] if e['what'] else '') for e in w['events']][:12])
        ctx.ob('PAIR', q, cfg, ok, detail, nontrivial=nontrivial, site='%s:%d' % (b.file, b.line))
        if nontrivial and cfg == ctx.cfgs[0]:
            ctx.sample({'rule': 'PAIR', 'function': q, 'outcomes_mutated_bumped': sorted(summ)})
    # REPLACE obligations: a non-snapshot whole-Tds replacement must continue the counter
    seen = set()
    for (owner, line, classified) in eng.replace_sites:
        if owner in seen:
            continue
        seen.add(owner)
        b = prog.bodies.get(owner)
        site = '%s:%d' % (b.file, line) if b else None
        bodies = [b] + [prog.bodies[c] for c in prog.children.get(owner, []) if c in prog.bodies] if b else []
        inherits = sum(1 for bd in bodies for _, t in bd.calls() if (t.resolved or t.callee) == GEN_INHERIT)
        ctx.ob('REPLACE', owner, cfg, inherits > 0,
               'whole-Tds (or whole-receiver) replacement by a rebuilt value; generation counter continued through '
               'Tds::inherit_generation_from: %s' % ('yes (%d call(s)); path pairing is decided by PAIR' % inherits if inherits else
               'NO — the new Tds carries a fresh counter, so a hull created earlier can compare equal'), site=site)
    ctx.floor('whole-Tds replacement sites', 2, len(seen), cfg)


# ------------------------------------------------------------------------------------------ GATE

def _tri_params(b):
    return [i for i in range(1, b.nargs + 1) if pair.pointee_head(b.locals[i])[0] in (TRI, DT, TDS)]


def _tri_calls(prog, mod, q):
    """Calls in q (and, flattened, in its closures) that receive a pointer into a triangulation
    parameter of q.  Returns list of (bb in q, Term, in_closure)."""
    b = prog.bodies[q]
    al = mod.aliases(q)
    tri = set(_tri_params(b))
    out = []
    for bb, t in b.calls():
        tg = [al.operand_target(o) for o in t.args]
        if any(x and x[0] in tri for x in tg):
            out.append((bb, t, None))
    for blk in b.blocks:
        if blk.cleanup:
            continue
        for s in blk.stmts:
            if s.kind == 'A' and s.rv.k == 'agg' and s.rv.raw.get('ak') == 'closure':
                caps = [al.operand_target(o) for o in s.rv.ops]
                if any(x and x[0] in tri for x in caps):
                    cq = s.rv.raw['def']
                    for (cbb, ct) in _closure_calls(prog, cq):
                        out.append((blk.idx, ct, cq))
    return out


def _closure_calls(prog, cq, depth=0):
    b = prog.bodies.get(cq)
    if b is None or depth > 3:
        return []
    out = []
    for bb, t in b.calls():
        name = t.resolved or t.callee or ''
        if name in prog.bodies or name == GEN:
            out.append((bb, t))
    for child in prog.children.get(cq, []):
        out += _closure_calls(prog, child, depth + 1)
    return out


def _generation_only(prog, mod):
    """Functions with a triangulation parameter whose only use of it is reading the generation
    (directly or through another generation-only function)."""
    cands = {}
    for q, b in prog.bodies.items():
        if b.kind == 'closure' or not _tri_params(b):
            continue
        if not (q.startswith(HULL + '::')):
            continue
        cands[q] = _tri_calls(prog, mod, q)
    good = set()
    changed = True
    while changed:
        changed = False
        for q, calls in cands.items():
            if q in good or not calls:
                continue
            if all((t.resolved or t.callee) == GEN or (t.resolved or t.callee) in good for _, t, _ in calls):
                good.add(q)
                changed = True
    return good


def _gate(ctx, cfg, prog, mod):
    gen_only = _generation_only(prog, mod)
    ctx.info.setdefault('generation_only_helpers', {})[cfg] = sorted(gen_only)
    # predicate helpers: generation-only and returning bool with "true == fresh" polarity
    preds = set()
    for q in gen_only:
        b = prog.bodies[q]
        if b.locals[0] == 'bool' and _eq_polarity(prog, q):
            preds.add(q)
    methods = []
    for q, b in prog.bodies.items():
        if b.kind == 'closure' or not b.exported or not q.startswith(HULL + '::'):
            continue
        tri = _tri_params(b)
        if not tri or b.nargs < 2:
            continue
        # constructor-like functions (no hull receiver) are not queries
        if pair.pointee_head(b.locals[1])[0] != HULL:
            continue
        methods.append(q)
    ctx.floor('exported ConvexHull queries taking the triangulation', 4, len(methods), cfg)
    # iterate: a method is "guarded" if all its tri-derived calls are behind the gate, or go to
    # generation-only helpers, or to other guarded methods
    guarded = set(gen_only)
    pending = [q for q in methods if q not in guarded]
    results = {}
    for _ in range(len(pending) + 2):
        progress = False
        for q in list(pending):
            bad, info = _check_method(prog, mod, q, guarded, preds)
            results[q] = (bad, info)
            if not bad:
                guarded.add(q)
                pending.remove(q)
                progress = True
        if not progress:
            break
    # non-exported helpers called with the triangulation from guarded methods behind the gate
    for q in methods:
        b = prog.bodies[q]
        if q in gen_only:
            ctx.ob('GATE', q, cfg, True, 'uses the triangulation only to read its generation', site='%s:%d' % (b.file, b.line))
            continue
        bad, info = results.get(q, ([], {}))
        ok = not bad
        detail = 'gate edges=%s; calls receiving the triangulation=%d' % (info.get('gates'), info.get('ncalls', 0))
        if bad:
            detail += '; reachable without passing the fresh edge of the generation comparison: ' + '; '.join(bad[:4])
        ctx.ob('GATE', q, cfg, ok, detail, site='%s:%d' % (b.file, b.line))
        if cfg == ctx.cfgs[0]:
            ctx.sample({'rule': 'GATE', 'function': q, 'gate_edges': info.get('gates'), 'guarded_calls': info.get('ncalls')})


def _eq_polarity(prog, q):
    """The bool returned is computed with Eq (never Ne / Not) on a generation value."""
    bodies = [prog.bodies[q]] + [prog.bodies[c] for c in prog.children.get(q, []) if c in prog.bodies]
    has_eq = False
    for b in bodies:
        for blk in b.blocks:
            if blk.cleanup:
                continue
            for s in blk.stmts:
                if s.kind == 'A' and s.rv.k == 'bin':
                    if s.rv.raw['op'] == 'Eq':
                        has_eq = True
                    elif s.rv.raw['op'] == 'Ne':
                        return False
                if s.kind == 'A' and s.rv.k == 'un' and s.rv.raw['op'] == 'Not':
                    return False
    return has_eq


def _gate_edges(prog, mod, q, preds, _depth=0):
    """CFG edges of q that are taken only when the hull is fresh."""
    b = prog.bodies[q]
    al = mod.aliases(q)
    tri = set(_tri_params(b))
    edges = set()
    descr = []
    uses = flow._collect_uses(b)
    # (i) direct comparison of Tds::generation(tri.tds) with a value derived from
    #     self.creation_generation
    for blk in b.blocks:
        if blk.cleanup:
            continue
        for s in blk.stmts:
            if s.kind != 'A' or s.rv.k != 'bin' or s.rv.raw['op'] not in ('Eq', 'Ne'):
                continue
            srcs = []
            for o in s.rv.ops:
                if o.place is None:
                    srcs.append([])
                else:
                    srcs.append(valueflow.sources(b, al, o.place.local))
            gen_side = None
            for k in (0, 1):
                for leaf in srcs[k]:
                    if leaf[0] == 'call' and (leaf[1].resolved or leaf[1].callee) == GEN:
                        tt = al.operand_target(leaf[1].args[0]) if leaf[1].args else None
                        if tt and tt[0] in tri:
                            gen_side = k
            if gen_side is None:
                continue
            other = srcs[1 - gen_side]
            from_creation = any(leaf[0] == 'place' and leaf[1][0] == 1 and 'creation_generation' in leaf[1][1]
                                for leaf in other)
            if not from_creation:
                descr.append('comparison at line %d does not use creation_generation' % s.line)
                continue
            mut_ = _hull_mutated(prog, mod)
            tainted = sorted({_self_field(leaf[1][1]) for leaf in other if leaf[0] == 'place' and leaf[1][0] == 1 and
                              _self_field(leaf[1][1]) in mut_})
            if tainted:
                descr.append('comparison at line %d also depends on %s, which is overwritten after construction' % (s.line, tainted))
                continue
            if not s.place.is_local():
                continue
            c = s.place.local
            for (sbb, _, snode, how) in uses.get(c, []):
                if how != 'switch':
                    continue
                listed = {v: tg for v, tg in snode.values}
                false_t = listed.get(0)
                true_t = snode.otherwise if 0 in listed else None
                fresh = true_t if s.rv.raw['op'] == 'Eq' else false_t
                if fresh is not None:
                    edges.add((sbb, fresh))
                    descr.append('%s(creation_generation, tds.generation()) line %d' % (s.rv.raw['op'], s.line))
    # (ii) call of a bool predicate helper with (self, tri); (iii) call of a Result-returning freshness gate
    #      (`self.ensure_fresh(tri)?`): a hull method whose every Ok exit lies behind a fresh edge of its own
    rgates = _result_gates(prog, mod, preds) if _depth == 0 else set()
    for bb, t in b.calls():
        name = t.resolved or t.callee
        if name in preds or name in rgates:
            tg = [al.operand_target(o) for o in t.args]
            if not any(x and x[0] in tri for x in tg):
                continue
            cf = flow.call_flow(b, bb)
            if cf.split and cf.ok_edges:
                edges |= cf.ok_edges
                descr.append('%s line %d' % (name.rsplit('::', 1)[-1], t.line))
    return edges, descr


_RGATES = {}


def _result_gates(prog, mod, preds):
    key = (id(prog), frozenset(preds))
    if key in _RGATES:
        return _RGATES[key]
    out = set()
    _RGATES[key] = out
    import gate
    for q, b in prog.bodies.items():
        if b.kind == 'closure' or not q.startswith(HULL + '::') or flow.type_kind(b.locals[0]) != 'result':
            continue
        if not _tri_params(b):
            continue
        edges, _ = _gate_edges(prog, mod, q, preds, _depth=1)
        if not edges:
            continue
        # no call that receives the triangulation other than the gate itself (a pure gate, not a query)
        reach = flow.reach_edges(b, [0], avoid_edges=edges)
        oks = [e['bb'] for e in gate.success_exit_blocks(b)]
        if oks and not any(x in reach for x in oks):
            out.add(q)
    return out


def _check_method(prog, mod, q, guarded, preds):
    b = prog.bodies[q]
    calls = _tri_calls(prog, mod, q)
    edges, descr = _gate_edges(prog, mod, q, preds)
    reach = flow.reach_edges(b, [0], avoid_edges=edges)
    bad = []
    n = 0
    for (bb, t, inclosure) in calls:
        name = t.resolved or t.callee or '?'
        if name == GEN or name in guarded:
            continue
        n += 1
        if bb in reach:
            bad.append('%s (line %d%s)' % (name, t.line, ', in closure' if inclosure else ''))
    return bad, {'gates': descr, 'ncalls': n}



# ------------------------------------------------------------------------------------------ FRESHSRC
INTERIOR_MUTATORS = ('store', 'swap', 'fetch_add', 'fetch_sub', 'fetch_max', 'fetch_min', 'fetch_update', 'compare_exchange',
                     'compare_exchange_weak', 'compare_and_swap', 'set', 'get_or_init', 'get_or_try_init', 'take', 'replace',
                     'rcu', 'get_mut', 'lock', 'write', 'borrow_mut')


def _hull_bodies(prog):
    for q, b in prog.bodies.items():
        if '::tests::' in q or not b.file.startswith('src/'):
            continue
        r = b.root or q
        if r.startswith(HULL + '::') or r.startswith('<' + HULL + ' as '):
            yield q, b


def _self_field(fields):
    for f in fields:
        if not f.startswith('^'):
            return f
    return None


def _is_hull_ctor(prog, b):
    rb = prog.bodies.get(b.root or b.q, b)
    return 'ConvexHull<' in rb.locals[0] and not any('ConvexHull<' in rb.locals[i] for i in range(1, rb.nargs + 1))


_HM = {}


def _hull_mutated(prog, mod):
    """hull field -> who stores into it after construction"""
    if id(prog) in _HM:
        return _HM[id(prog)]
    mutated = {}
    for q, b in _hull_bodies(prog):
        if _is_hull_ctor(prog, b):
            continue
        al = mod.aliases(q)
        selfs = [i for i in range(1, b.nargs + 1) if 'ConvexHull<' in b.locals[i]] or ([1] if b.kind == 'closure' else [])
        for blk in b.blocks:
            if blk.cleanup:
                continue
            for s in blk.stmts:
                if s.kind != 'A':
                    continue
                root, fields, derefd = al.norm(s.place)
                if derefd and root in selfs and fields:
                    f = _self_field(fields)
                    if f:
                        mutated.setdefault(f, set()).add('%s (assignment)' % (b.root or q).rsplit('::', 1)[-1])
            t = blk.term
            if t.k == 'call' and (t.callee or t.resolved or '').rsplit('::', 1)[-1] in INTERIOR_MUTATORS and t.args:
                tt = al.operand_target(t.args[0])
                if tt is not None and tt[0] in selfs and tt[1]:
                    f = _self_field(tt[1])
                    if f:
                        mutated.setdefault(f, set()).add('%s (%s)' % ((b.root or q).rsplit('::', 1)[-1],
                                                                      (t.callee or t.resolved).rsplit('::', 1)[-1]))
    _HM[id(prog)] = mutated
    return mutated


def _freshsrc(ctx, cfg, prog, mod):
    """FRESHSRC: the hull side of the freshness test is *write-once* state.  A hull field is `mutated` when some
    non-constructor hull function stores into it (assignment through `&mut self`, or an interior-mutability method -
    store / swap / set / take ... - with the field as receiver).  The freshness predicates (generation-only bool helpers)
    and the functions that compare generations directly must not read a mutated field: bookkeeping that a later call
    can overwrite with the triangulation's current generation (the facet-cache generation) would make a stale hull look
    fresh again."""
    ctx.rule('FRESHSRC', 'the hull side of the freshness comparison reads only write-once hull state')
    mutated = _hull_mutated(prog, mod)
    ctx.info.setdefault('hull_fields_mutated_after_construction', {})[cfg] = {k: sorted(v) for k, v in mutated.items()}
    gen_only = _generation_only(prog, mod)
    n = 0
    for q in sorted(gen_only):
        bodies = [prog.bodies[q]] + [prog.bodies[c] for c in prog.children.get(q, []) if c in prog.bodies]
        if prog.bodies[q].locals[0] != 'bool':
            continue
        n += 1
        reads = set()
        for b in bodies:
            al = mod.aliases(b.q)
            selfs = [i for i in range(1, b.nargs + 1) if 'ConvexHull<' in b.locals[i]] or ([1] if b.kind == 'closure' else [])
            places = []
            for blk in b.blocks:
                if blk.cleanup:
                    continue
                for s in blk.stmts:
                    if s.kind == 'A':
                        places += [o.place for o in s.rv.ops if o.place is not None]
                        if s.rv.place is not None:
                            places.append(s.rv.place)
                t = blk.term
                if t.k == 'call':
                    places += [o.place for o in t.args if o.place is not None]
            for pl in places:
                root, fields, derefd = al.norm(pl)
                if root in selfs and fields:
                    f = _self_field(fields)
                    if f:
                        reads.add(f)
        bad = sorted(reads & set(mutated))
        b0 = prog.bodies[q]
        ctx.ob('FRESHSRC', q, cfg, not bad,
               'hull fields read by the freshness predicate: %s; %s' % (sorted(reads), 'all write-once' if not bad else
               'reads %s, which %s overwrite(s) after construction: once that bookkeeping is brought up to the triangulation\'s '
               'current generation a stale hull answers queries' % (bad, sorted(set().union(*[mutated[f] for f in bad])))),
               site='%s:%d' % (b0.file, b0.line))
    ctx.floor('freshness predicates', 1, n, cfg)

# ------------------------------------------------------------------------------------------ MONO

def _mono(ctx, cfg, prog, mod):
    """Every write whose target path ends in Tds.generation."""
    writers = []
    for q, b in prog.bodies.items():
        al = mod.aliases(q)
        for blk in b.blocks:
            if blk.cleanup:
                continue
            for s in blk.stmts:
                root, fields, derefd = al.norm(s.place)
                if fields and fields[-1] == 'generation' and _is_tds_path(b, root, fields):
                    writers.append((q, 'assign', s.line))
            t = blk.term
            if t.k == 'call':
                for i, o in enumerate(t.args):
                    tt = al.operand_target(o)
                    if tt and tt[1] and tt[1][-1] == 'generation' and _is_tds_path(b, tt[0], tt[1]):
                        name = t.resolved or t.callee or '?'
                        last = name.rsplit('::', 1)[-1]
                        if last in ('load', 'clone', 'fmt', 'deref', 'as_ref', 'eq', 'ne', 'strong_count'):
                            continue
                        writers.append((q, last, t.line))
    n = 0
    for (q, how, line) in writers:
        b = prog.bodies[q]
        ok = how in ('fetch_add',) or (q == GEN_INHERIT and how == 'assign')
        n += 1
        ctx.ob('MONO', '%s|%s' % (q, how), cfg, ok,
               'Tds.generation touched by `%s` in %s' % (how, q), site='%s:%d' % (b.file, line))
    ctx.floor('writers of Tds.generation (fetch_add)', 1, len([w for w in writers if w[1] == 'fetch_add']), cfg)
    clone_impl_seen = []
    # constructions of Tds aggregates must create the counter with Arc::new (checked: the
    # aggregate's generation operand comes from a call to Arc::new or a clone of another counter)
    for q, b in prog.bodies.items():
        for blk in b.blocks:
            if blk.cleanup:
                continue
            for s in blk.stmts:
                if s.kind == 'A' and s.rv.k == 'agg' and s.rv.raw.get('adt') == TDS:
                    fl = s.rv.raw.get('fields', [])
                    if 'generation' not in fl:
                        continue
                    o = s.rv.ops[fl.index('generation')]
                    al = mod.aliases(q)
                    srcs = valueflow.sources(b, al, o.place.local) if o.place is not None else []
                    names = {(l[1].resolved or l[1].callee or '').rsplit('::', 1)[-1] for l in srcs if l[0] == 'call'}
                    ok = bool(names & {'new', 'clone', 'default'}) and not (names & {'store', 'swap'})
                    detail = 'Tds constructed in %s with generation from %s' % (q, sorted(names))
                    if (b.impl_trait or '').endswith('Clone'):
                        # snapshots are clones: a rolled-back operation must leave the *shared*
                        # counter bumped, so Clone must share the Arc, not start a new counter
                        shares = 'clone' in names and 'new' not in names
                        ok = ok and shares
                        detail = 'Clone for Tds %s the generation counter with the original (sources: %s)%s' % (
                            'shares' if shares else 'does NOT share', sorted(names),
                            '' if shares else ': restoring a snapshot rewinds the counter, so a hull taken before a '
                            'failed, rolled-back operation no longer reports staleness')
                        clone_impl_seen.append(q)
                    ctx.ob('MONO', '%s|construct' % q, cfg, ok, detail, site='%s:%d' % (b.file, s.line))
    ctx.floor('Clone impl of Tds examined (snapshots share the counter)', 1, len(clone_impl_seen), cfg)


def _is_tds_path(b, root, fields):
    if not (1 <= root <= b.nargs):
        return False
    head, _ = pair.pointee_head(b.locals[root])
    if head is None:
        head = b.locals[root].split('<', 1)[0]
    pref = pair.STORAGE_PREFIX.get(head)
    if pref is None:
        return False
    return tuple(fields[:-1]) == tuple(pref)
