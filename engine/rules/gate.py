"""GATE — must-pass-through on the success edge of a checker.

MustPass(f, from, to, via): in the CFG of f with the success edges `via` deleted, `to` is
unreachable from `from`.  `via` is the set of success edges of *checked* calls whose callee covers
(reaches, in the call graph) a given leaf-checker set; a call whose result is forwarded as the
function's own result counts for the exit it is forwarded to."""
from collections import deque

import flow


class Leaves:
    """Call-graph reachability to named leaf functions."""

    def __init__(self, prog):
        self.prog = prog
        self._reach = {}

    def reach_set(self, q):
        """All callee names (local or external) reachable from body q, including q."""
        if q in self._reach:
            return self._reach[q]
        seen = {q}
        dq = deque([q])
        cg = self.prog.callgraph
        while dq:
            x = dq.popleft()
            for c in cg.get(x, ()):
                if c not in seen:
                    seen.add(c)
                    if c in self.prog.bodies:
                        dq.append(c)
        self._reach[q] = seen
        return seen

    def covers(self, callee, leafset, mode='all'):
        if callee in leafset and len(leafset) == 1:
            return True
        if callee not in self.prog.bodies:
            return callee in leafset and mode == 'any'
        rs = self.reach_set(callee)
        if mode == 'all':
            return all(l in rs for l in leafset)
        return any(l in rs for l in leafset)

    def missing(self, callee, leafset):
        if callee not in self.prog.bodies:
            return sorted(l for l in leafset if l != callee)
        rs = self.reach_set(callee)
        return sorted(l for l in leafset if l not in rs)


def gate_calls(prog, leaves, body, leafset, mode='all'):
    """Blocks of `body` whose call covers the leaf set."""
    out = []
    for bb, t in body.calls():
        name = t.resolved or t.callee
        cands = [n for n in (t.resolved, t.callee) if n]
        if any(leaves.covers(n, leafset, mode) for n in cands):
            out.append(bb)
    return out


_CONSTF = {}


def const_false_functions(prog):
    """Functions whose body is just `return false` in this configuration (cfg-dependent switches
    such as test-only force flags)."""
    key = id(prog)
    if key in _CONSTF:
        return _CONSTF[key]
    out = set()
    for q, b in prog.bodies.items():
        if b.locals[0] != 'bool' or b.kind == 'closure':
            continue
        live = [blk for blk in b.blocks if not blk.cleanup]
        stmts = [s for blk in live for s in blk.stmts]
        calls = [blk for blk in live if blk.term.k == 'call']
        if calls or len(stmts) != 1:
            continue
        s = stmts[0]
        if s.kind == 'A' and s.place.is_local() and s.place.local == 0 and s.rv.k == 'use' and s.rv.ops and \
                s.rv.ops[0].kind == 'k' and s.rv.ops[0].const.get('v') == 'false':
            out.add(q)
    _CONSTF[key] = out
    return out


def infeasible_true_edges(prog, body):
    """True edges of calls to constant-false functions."""
    cf_funcs = const_false_functions(prog)
    edges = set()
    for bb, t in body.calls():
        if (t.resolved or t.callee) in cf_funcs:
            edges |= flow.call_flow(body, bb).ok_edges
    return edges


def success_exit_blocks(body, forwarded_from=()):
    """Blocks that write a success value (or something not known to be a failure) to `_0`.
    Writes that forward the result of a call in `forwarded_from` (set of call blocks) are
    excluded: the function's Ok is then that call's Ok."""
    cflows = flow.all_call_flows(body)
    fwd_blocks = set()
    for cb in forwarded_from:
        cf = cflows.get(cb)
        if cf is not None:
            fwd_blocks |= cf.forward_blocks
    # which calls are forwarded where
    fwd_of = {}
    for cb, cf in cflows.items():
        for fb in cf.forward_blocks:
            fwd_of.setdefault(fb, []).append(cb)
    out = []
    for e in flow.exit_assignments(body):
        if e['cls'] in ('err', 'residual'):
            continue
        if e['bb'] in fwd_blocks:
            continue
        if e['cls'] in ('forward', 'callret') and e['bb'] in fwd_of:
            # `if r.is_err() { return r; }`: a forward that is reachable from the call only
            # through its failure edges is a failure exit
            only_fail = True
            for cb in fwd_of[e['bb']]:
                cf = cflows[cb]
                if not cf.err_edges:
                    only_fail = False
                    break
                reach = flow.reach_edges(body, body.succs(cb), avoid_edges=cf.err_edges)
                if e['bb'] in reach or e['bb'] == cb:
                    only_fail = False
                    break
            if only_fail:
                continue
        out.append(e)
    return out


def must_pass(prog, leaves, body, leafset, mode='all', starts=None, targets=None, extra_cut_edges=(),
              polarity='ok'):
    """Returns dict(ok, gates, via_edges, escaping=[...], unchecked=[...]).
    targets: list of blocks (default: success exits); starts: list of blocks (default: entry)."""
    gcalls = gate_calls(prog, leaves, body, leafset, mode)
    cflows = flow.all_call_flows(body)
    via = set()
    unchecked = []
    pass_blocks = set()
    for cb in gcalls:
        cf = cflows[cb]
        edges = cf.ok_edges if polarity == 'ok' else cf.err_edges
        t = body.blocks[cb].term
        rt = body.locals[t.dest.local] if t.dest is not None and t.dest.is_local() else ''
        if edges:
            via |= edges
        elif flow.type_kind(rt) is None and rt not in ('()',):
            # a checker that returns a verdict record (not a Result): passing the call is what
            # can be required structurally; the comparison of its fields is a value matter
            pass_blocks.add(cb)
        elif not cf.forward_blocks:
            unchecked.append(cb)
    if targets is None:
        tg = success_exit_blocks(body, forwarded_from=gcalls)
        targets = [e['bb'] for e in tg]
    starts = [0] if starts is None else starts
    extra_cut_edges = set(extra_cut_edges) | infeasible_true_edges(prog, body)
    reach = flow.reach_edges_cp(body, starts, avoid_edges=set(via) | set(extra_cut_edges), avoid_blocks=pass_blocks)
    escaping = [t for t in targets if t in reach]
    paths = []
    for t in escaping[:3]:
        p = flow.path_edges(body, starts, [t], avoid_edges=set(via) | set(extra_cut_edges))
        if p:
            paths.append(p)
    return {
        'ok': bool(gcalls) and not escaping,
        'gates': [(cb, body.blocks[cb].term.resolved or body.blocks[cb].term.callee, body.blocks[cb].term.line) for cb in gcalls],
        'via': sorted(via),
        'escaping': escaping,
        'paths': paths,
        'unchecked': unchecked,
        'targets': targets,
    }


def describe(body, res):
    g = ', '.join('%s@L%d' % (n.rsplit('::', 1)[-1], ln) for _, n, ln in res['gates']) or 'none'
    s = 'gate calls: %s; success exits examined: %d' % (g, len(res['targets']))
    if res['escaping']:
        lines = sorted({body.blocks[b].term.line for b in res['escaping']})
        s += '; success exit(s) reachable without passing the success edge of a gate: blocks %s (lines %s)' % (
            res['escaping'][:5], lines[:5])
        if res['paths']:
            s += '; example path (blocks) %s' % res['paths'][0][:25]
    if res['unchecked']:
        s += '; gate result not checked at blocks %s' % res['unchecked']
    return s


def predicate_edges(body, pred_names, truth=True):
    """Edges taken when a call to one of `pred_names` (bool-returning) evaluated to `truth`."""
    edges = set()
    for bb, t in body.calls():
        if (t.resolved or t.callee) in pred_names or t.callee in pred_names:
            cf = flow.call_flow(body, bb)
            edges |= (cf.ok_edges if truth else cf.err_edges)
    return edges


# ----------------------------------------------------------------------------------------------
# NODROP / sound validators / certified constructors

def nodrop(prog, leaves, body, relevant):
    """Every call in `body` whose callee is in `relevant` must have its result checked, and its
    failure edge must not reach a success exit.  Returns list of offending (bb, callee, why)."""
    bad = []
    cflows = flow.all_call_flows(body)
    ok_exits = None
    for bb, t in body.calls():
        names = [n for n in (t.resolved, t.callee) if n]
        if not any(n in relevant for n in names):
            continue
        name = names[0]
        rt = body.locals[t.dest.local] if t.dest is not None and t.dest.is_local() else ''
        if flow.type_kind(rt) not in ('result', 'option', 'bool', 'cf'):
            continue
        cf = cflows[bb]
        if cf.forward_blocks and not cf.split:
            continue            # returned as the function's own result
        if cf.dropped or (not cf.split and not cf.forward_blocks and not cf.escapes):
            bad.append((bb, name, 'result discarded'))
            continue
        if cf.lossy:
            bad.append((bb, name, 'failure swallowed by %s' % cf.lossy[0][1].rsplit('::', 1)[-1]))
            continue
        if not cf.split:
            # escapes into something we do not follow (pushed onto a violations vector, etc.)
            continue
        if ok_exits is None:
            # anything that can be a success: Ok(..) and results forwarded from other calls
            ok_exits = [e['bb'] for e in success_exit_blocks(body)]
        reach = flow.reach_edges(body, [d for (_, d) in cf.err_edges])
        # report style: the failure is recorded (pushed onto a violations collection) and the
        # verdict is taken from that collection at the end
        recorded = False
        for rb in reach:
            rt_ = body.blocks[rb].term
            if rt_.k == 'call' and (rt_.callee or rt_.resolved or '').rsplit('::', 1)[-1] in ('push', 'insert', 'extend', 'push_back'):
                recorded = True
        if recorded:
            continue
        # paths that come back around a loop and later succeed are still failures swallowed
        esc = [e for e in ok_exits if e in reach and e not in cf.forward_blocks]
        if esc and flow.type_kind(body.locals[0]) in ('result', 'option', 'bool'):
            bad.append((bb, name, 'failure edge reaches a success exit (block %d)' % esc[0]))
    return bad


def is_pure(prog, q):
    """No `&mut` parameter (closures: judged by their root function)."""
    b = prog.bodies[q]
    root = prog.bodies.get(b.root or q, b)
    for i in range(1, root.nargs + 1):
        t = root.locals[i]
        if t.startswith('&mut') or 'Option<&mut' in t:
            return False
    return True


def is_validator(prog, q):
    """Pure function whose verdict is its whole result: returns Result<(), _>, bool, or (for
    closures) anything, and takes no `&mut`."""
    if not is_pure(prog, q):
        return False
    b = prog.bodies[q]
    root = prog.bodies.get(b.root or q, b)
    rt = root.locals[0]
    return rt == 'bool' or rt.startswith('std::result::Result<(), ')


def sound_validators(prog, leaves, leafset, exceptions=()):
    """Greatest fixed point: functions that reach a leaf checker and in which no leaf / validator
    result is dropped or swallowed.  `exceptions`: (caller, callee) pairs accepted with a reason
    elsewhere.  Returns (set, {q: [offences]})."""
    leafset = set(leafset)
    reaching = set()
    for q, b in prog.bodies.items():
        rs = leaves.reach_set(q)
        if rs & leafset and q not in leafset and is_validator(prog, q):
            reaching.add(q)
    offences = {}
    S = set(reaching)
    for q in sorted(reaching):
        b = prog.bodies[q]
        relevant = (reaching | leafset) - {q}
        bad = [x for x in nodrop(prog, leaves, b, relevant) if (b.root or q, x[1]) not in exceptions and (q, x[1]) not in exceptions]
        if bad:
            offences[q] = bad
    changed = True
    S = {q for q in reaching if q not in offences}
    # a function is only as sound as the validators it relies on
    while changed:
        changed = False
        for q in list(S):
            b = prog.bodies[q]
            for bb, t in b.calls():
                for n in (t.resolved, t.callee):
                    if n in reaching and n not in S and n != q and (b.root or q, n) not in exceptions:
                        # relies on an unsound validator: only a problem if that callee is the
                        # sole route to the leaves — keep it simple and conservative
                        pass
    return S, offences


def unconditional_validators(prog, leaves, S, leafset, zero_counters=()):
    """Greatest fixed point inside S (functions that drop no result): those in which *every* success
    exit lies behind the success edge of a call to a leaf checker or to another member — i.e. the
    verdict cannot be Ok without a check having run.  Edges taken when one of `zero_counters`
    returned 0 (nothing to check) are cut.  Returns (set, {q: escaping exit blocks})."""
    leafset = set(leafset)
    U = {q for q in S if prog.bodies[q].kind != 'closure'}
    why = {}
    changed = True
    while changed:
        changed = False
        for q in sorted(U):
            b = prog.bodies[q]
            cflows = flow.all_call_flows(b)
            via = set()
            gcalls = []
            for bb, t in b.calls():
                names = {n for n in (t.resolved, t.callee) if n}
                if names & leafset or names & (U - {q}):
                    cf = cflows[bb]
                    if cf.ok_edges or cf.forward_blocks:
                        via |= cf.ok_edges
                        gcalls.append(bb)
            cut = set(via) | infeasible_true_edges(prog, b)
            for zc in zero_counters:
                cut |= _zero_edges(b, zc)
            cut |= _checked_loop_exhaustion_edges(b, cflows, gcalls, via)
            targets = [e['bb'] for e in success_exit_blocks(b, forwarded_from=gcalls)]
            reach = flow.reach_edges_cp(b, [0], avoid_edges=cut)
            esc = [t_ for t_ in targets if t_ in reach]
            if esc or not gcalls:
                U.discard(q)
                why[q] = esc
                changed = True
    return U, why


def _checked_loop_exhaustion_edges(body, cflows, gcalls, via):
    """`for x in all { check(x)?; } Ok(())`: a loop in which no iteration can complete without the
    success edge of a check is an unconditional check of every element; its iterator-exhausted
    edge (the None edge of the `next` call in the loop) counts as a passing edge."""
    import loops
    out = set()
    if not gcalls:
        return out
    for h, nodes in loops.natural_loops(body).items():
        if not any(g in nodes for g in gcalls):
            continue
        # a cycle through the header that avoids every success edge of a check?
        seen = set()
        work = [(h, s_) for s_ in body.succs(h)]
        free_cycle = False
        while work:
            (a, x) = work.pop()
            if (a, x) in via or x not in nodes:
                continue
            if x == h:
                free_cycle = True
                break
            if x in seen:
                continue
            seen.add(x)
            for s_ in body.succs(x):
                work.append((x, s_))
        if free_cycle:
            continue
        for bb in nodes:
            t = body.blocks[bb].term
            if t.k == 'call' and (t.resolved or t.callee or '').rsplit('::', 1)[-1] == 'next' and bb in cflows:
                out |= {e for e in cflows[bb].err_edges}
    return out


def _zero_edges(body, counter_fn):
    """Edges taken when `counter_fn(..) == 0`."""
    edges = set()
    uses = flow._collect_uses(body)
    for bb, t in body.calls():
        if (t.resolved or t.callee) != counter_fn or t.dest is None or not t.dest.is_local():
            continue
        locs = {t.dest.local}
        work = [t.dest.local]
        while work:
            l = work.pop()
            for (ubb, _, node, how) in uses.get(l, []):
                if how == 'stmt' and node.rv.k == 'use' and node.place.is_local() and node.place.local not in locs:
                    locs.add(node.place.local)
                    work.append(node.place.local)
                elif how == 'stmt' and node.rv.k == 'bin' and node.rv.raw['op'] in ('Eq', 'Ne', 'Gt') and node.place.is_local():
                    other = [o for o in node.rv.ops if not (o.place is not None and o.place.is_local() and o.place.local == l)]
                    if not other or other[0].int_value() != 0:
                        continue
                    for (sbb, _, snode, show) in uses.get(node.place.local, []):
                        if show == 'switch':
                            listed = {v: tg for v, tg in snode.values}
                            if 0 not in listed:
                                continue
                            if node.rv.raw['op'] == 'Eq':
                                edges.add((sbb, snode.otherwise))
                            else:
                                edges.add((sbb, listed[0]))
    return edges


def certified_set(prog, leaves, gate_funcs, candidates, zero_counters=()):
    """Greatest fixed point over `candidates`: functions all of whose success exits are dominated
    by the success edge of a call to a gate function or to another certified function.  Edges taken
    when one of `zero_counters` returned 0 (nothing to check) are cut."""
    C = set(candidates)
    gate_funcs = set(gate_funcs)
    detail = {}
    changed = True
    while changed:
        changed = False
        for q in sorted(C):
            b = prog.bodies[q]
            cflows = flow.all_call_flows(b)
            via = set()
            gcalls = []
            for bb, t in b.calls():
                names = {n for n in (t.resolved, t.callee) if n}
                if names & gate_funcs or names & (C - {q}):
                    cf = cflows[bb]
                    if cf.ok_edges or cf.forward_blocks:
                        via |= cf.ok_edges
                        gcalls.append(bb)
            targets = [e['bb'] for e in success_exit_blocks(b, forwarded_from=gcalls)]
            zc = set()
            for z in zero_counters:
                zc |= _zero_edges(b, z)
            reach = flow.reach_edges_cp(b, [0], avoid_edges=via | infeasible_true_edges(prog, b) | zc)
            esc = [t_ for t_ in targets if t_ in reach]
            if esc or not gcalls:
                C.discard(q)
                detail[q] = {'escaping': esc, 'gates': [(bb, b.blocks[bb].term.resolved or b.blocks[bb].term.callee) for bb in gcalls]}
                changed = True
    return C, detail
