"""GATE — must-pass-through on the success edge of a checker.

MustPass(f, from, to, via): in the CFG of f with the success edges `via` deleted, `to` is
unreachable from `from`.  `via` is the set of success edges of *checked* calls whose callee covers
(reaches, in the call graph) a given leaf-checker set; a call whose result is forwarded as the
function's own result counts for the exit it is forwarded to."""
from collections import deque

import flow


class Leaves:
    """Call-graph reachability to named leaf functions."""

    def __init__(self, prog):
        self.prog = prog
        self._reach = {}

    def reach_set(self, q):
        """All callee names (local or external) reachable from body q, including q."""
        if q in self._reach:
            return self._reach[q]
        seen = {q}
        dq = deque([q])
        cg = self.prog.callgraph
        while dq:
            x = dq.popleft()
            for c in cg.get(x, ()):
                if c not in seen:
                    seen.add(c)
                    if c in self.prog.bodies:
                        dq.append(c)
        self._reach[q] = seen
        return seen

    def covers(self, callee, leafset, mode='all'):
        if callee in leafset and len(leafset) == 1:
            return True
        if callee not in self.prog.bodies:
            return callee in leafset and mode == 'any'
        rs = self.reach_set(callee)
        if mode == 'all':
            return all(l in rs for l in leafset)
        return any(l in rs for l in leafset)

    def missing(self, callee, leafset):
        if callee not in self.prog.bodies:
            return sorted(l for l in leafset if l != callee)
        rs = self.reach_set(callee)
        return sorted(l for l in leafset if l not in rs)


def gate_calls(prog, leaves, body, leafset, mode='all'):
    """Blocks of `body` whose call covers the leaf set."""
    out = []
    for bb, t in body.calls():
        name = t.resolved or t.callee
        cands = [n for n in (t.resolved, t.callee) if n]
        if any(leaves.covers(n, leafset, mode) for n in cands):
            out.append(bb)
    return out


def success_exit_blocks(body, forwarded_from=()):
    """Blocks that write a success value (or something not known to be a failure) to `_0`.
    Writes that forward the result of a call in `forwarded_from` (set of call blocks) are
    excluded: the function's Ok is then that call's Ok."""
    cflows = flow.all_call_flows(body)
    fwd_blocks = set()
    for cb in forwarded_from:
        cf = cflows.get(cb)
        if cf is not None:
            fwd_blocks |= cf.forward_blocks
    out = []
    for e in flow.exit_assignments(body):
        if e['cls'] in ('err', 'residual'):
            continue
        if e['bb'] in fwd_blocks:
            continue
        out.append(e)
    return out


def must_pass(prog, leaves, body, leafset, mode='all', starts=None, targets=None, extra_cut_edges=(),
              polarity='ok'):
    """Returns dict(ok, gates, via_edges, escaping=[...], unchecked=[...]).
    targets: list of blocks (default: success exits); starts: list of blocks (default: entry)."""
    gcalls = gate_calls(prog, leaves, body, leafset, mode)
    cflows = flow.all_call_flows(body)
    via = set()
    unchecked = []
    for cb in gcalls:
        cf = cflows[cb]
        edges = cf.ok_edges if polarity == 'ok' else cf.err_edges
        if edges:
            via |= edges
        elif not cf.forward_blocks:
            unchecked.append(cb)
    if targets is None:
        tg = success_exit_blocks(body, forwarded_from=gcalls)
        targets = [e['bb'] for e in tg]
    starts = [0] if starts is None else starts
    reach = flow.reach_edges(body, starts, avoid_edges=set(via) | set(extra_cut_edges))
    escaping = [t for t in targets if t in reach]
    paths = []
    for t in escaping[:3]:
        p = flow.path_edges(body, starts, [t], avoid_edges=set(via) | set(extra_cut_edges))
        if p:
            paths.append(p)
    return {
        'ok': bool(gcalls) and not escaping,
        'gates': [(cb, body.blocks[cb].term.resolved or body.blocks[cb].term.callee, body.blocks[cb].term.line) for cb in gcalls],
        'via': sorted(via),
        'escaping': escaping,
        'paths': paths,
        'unchecked': unchecked,
        'targets': targets,
    }


def describe(body, res):
    g = ', '.join('%s@L%d' % (n.rsplit('::', 1)[-1], ln) for _, n, ln in res['gates']) or 'none'
    s = 'gate calls: %s; success exits examined: %d' % (g, len(res['targets']))
    if res['escaping']:
        lines = sorted({body.blocks[b].term.line for b in res['escaping']})
        s += '; success exit(s) reachable without passing the success edge of a gate: blocks %s (lines %s)' % (
            res['escaping'][:5], lines[:5])
        if res['paths']:
            s += '; example path (blocks) %s' % res['paths'][0][:25]
    if res['unchecked']:
        s += '; gate result not checked at blocks %s' % res['unchecked']
    return s


def predicate_edges(body, pred_names, truth=True):
    """Edges taken when a call to one of `pred_names` (bool-returning) evaluated to `truth`."""
    edges = set()
    for bb, t in body.calls():
        if (t.resolved or t.callee) in pred_names or t.callee in pred_names:
            cf = flow.call_flow(body, bb)
            edges |= (cf.ok_edges if truth else cf.err_edges)
    return edges
