"""C08 — flip-based repair (structural clauses).

 BUDGET      in every repair step, between a successful flip and the enqueueing of the new cells the
             flip counter is incremented and compared with the budget; the exceeding edge fails;
 ADMISSIBLE  no exported function reaches a repair driver without the admissibility predicate
             (TopologicalOperation::is_admissible_under) having answered true on the way;
 POSTCOND    every public repair entry point, and every function it relies on for its Ok, reports
             success only behind the success edge of the post-condition verifier;
 NODROP      the verifiers above the four flip-predicate post-condition checkers drop no result;
 (TXN for the two entry points is C03.)
Not decided: convergence, equality with the unique Delaunay triangulation, vertex-set equality."""
import flow
import gate
import pair
import tables

EXPLANATION = (
    "BUDGET: per repair step function, must-pass-through from the success edge of apply_bistellar_flip_* to "
    "enqueue_new_cells_for_repair via (i) the increment of stats.flips_performed and (ii) the within-budget edge of "
    "its comparison with max_flips, whose other edge reaches no success exit. ADMISSIBLE: least fixed point over the "
    "call graph of 'reaches a repair driver without a dominating true edge of is_admissible_under'. POSTCOND: greatest "
    "fixed point 'every success exit is dominated by the success edge of verify_repair_postcondition or of a call to "
    "a function with that property'. NODROP: result-flow check of the pure verifiers. Convergence is not decided.")

F = 'core::algorithms::flips::'
D_ = 'core::delaunay_triangulation::DelaunayTriangulation::'
DRIVERS = {F + 'repair_delaunay_with_flips_k2_k3', F + 'repair_delaunay_local_single_pass'}
ADM = 'core::operations::TopologicalOperation::is_admissible_under'
VERIFY = F + 'verify_repair_postcondition'
ENQ = F + 'enqueue_new_cells_for_repair'
PUBLIC_ENTRIES = [D_ + 'repair_delaunay_with_flips', D_ + 'repair_delaunay_with_flips_advanced']
STEP_FLOOR = 5


def run(ctx):
    ctx.rule('BUDGET', 'flip -> counter increment -> budget comparison (exceeding edge fails) -> enqueue')
    ctx.rule('ADMISSIBLE', 'repair drivers are reachable from exported functions only behind is_admissible_under == true')
    ctx.rule('POSTCOND', 'Ok of the public repair entry points is dominated by the success edge of the post-condition verifier')
    ctx.rule('NODROP', 'Delaunay verifiers drop no checker result')
    for cfg in ctx.cfgs:
        prog = ctx.prog(cfg)
        mod = ctx.mod(cfg)
        lv = gate.Leaves(prog)
        _budget(ctx, cfg, prog, mod)
        _admissible(ctx, cfg, prog, lv)
        _postcond(ctx, cfg, prog, lv)
        _nodrop(ctx, cfg, prog, lv)
    return ctx.finish(EXPLANATION)


def _budget(ctx, cfg, prog, mod):
    n = 0
    for q, b in sorted(prog.bodies.items()):
        if b.kind == 'closure':
            continue
        flips = [(bb, t) for bb, t in b.calls() if (t.resolved or t.callee or '').startswith(F + 'apply_bistellar_flip')]
        enq = [bb for bb, t in b.calls() if (t.resolved or t.callee or '').startswith(F + 'enqueue_')]
        if not flips or not enq:
            continue
        n += 1
        al = mod.aliases(q)
        # increments of `.flips_performed`
        inc_blocks = set()
        for blk in b.blocks:
            if blk.cleanup:
                continue
            for s in blk.stmts:
                root, fields, derefd = al.norm(s.place)
                if fields and fields[-1] == 'flips_performed' and s.kind == 'A':
                    inc_blocks.add(blk.idx)
        # comparison flips_performed > max_flips
        within = set()
        exceed = set()
        uses = flow._collect_uses(b)
        for blk in b.blocks:
            if blk.cleanup:
                continue
            for s in blk.stmts:
                if s.kind != 'A' or s.rv.k != 'bin' or s.rv.raw['op'] not in ('Gt', 'Ge', 'Lt', 'Le'):
                    continue
                sides = []
                for o in s.rv.ops:
                    sides.append(_reads_field(b, al, o, 'flips_performed'))
                if not any(sides) or not s.place.is_local():
                    continue
                op = s.rv.raw['op']
                counter_left = sides[0]
                exceeds_when_true = (op in ('Gt', 'Ge')) == counter_left
                for (sbb, _, snode, how) in uses.get(s.place.local, []):
                    if how != 'switch':
                        continue
                    listed = {v: tg for v, tg in snode.values}
                    f_t = listed.get(0)
                    t_t = snode.otherwise if 0 in listed else None
                    if f_t is None or t_t is None:
                        continue
                    if exceeds_when_true:
                        exceed.add((sbb, t_t))
                        within.add((sbb, f_t))
                    else:
                        exceed.add((sbb, f_t))
                        within.add((sbb, t_t))
        site = '%s:%d' % (b.file, b.line)
        for fbb, ft in flips:
            cf = flow.call_flow(b, fbb)
            starts = [d for (_, d) in cf.ok_edges]
            key = '%s|%s' % (q, (ft.resolved or ft.callee).rsplit('::', 1)[-1])
            if not starts:
                ctx.ob('BUDGET', key, cfg, False, 'result of the flip is not split into success / failure', site=site)
                continue
            r1 = flow.reach_edges(b, starts, avoid_blocks=inc_blocks)
            r2 = flow.reach_edges(b, starts, avoid_edges=within)
            no_inc = [e for e in enq if e in r1]
            no_cmp = [e for e in enq if e in r2]
            # exceeding edge must not reach a success exit or an enqueue
            ok_exits = [e['bb'] for e in flow.exit_assignments(b) if e['cls'] == 'ok']
            r3 = flow.reach_edges(b, [d for (_, d) in exceed])
            leak = [e for e in ok_exits + enq if e in r3]
            ok = bool(inc_blocks) and bool(within) and not no_inc and not no_cmp and not leak
            why = []
            if not inc_blocks:
                why.append('no increment of flips_performed in the function')
            if not within:
                why.append('no comparison of flips_performed with the budget')
            if no_inc:
                why.append('enqueue reachable from the successful flip without incrementing the counter')
            if no_cmp:
                why.append('enqueue reachable from the successful flip without passing the within-budget edge')
            if leak:
                why.append('the budget-exceeded edge reaches a success exit or an enqueue')
            ctx.ob('BUDGET', key, cfg, ok, '; '.join(why) or
                   'flip -> increment (blocks %s) -> within-budget edge %s -> enqueue' % (sorted(inc_blocks)[:3], sorted(within)[:2]),
                   site='%s:%d' % (b.file, ft.line))
            if cfg == ctx.cfgs[0]:
                ctx.sample({'rule': 'BUDGET', 'function': q, 'flip': (ft.resolved or ft.callee).rsplit('::', 1)[-1], 'ok': ok})
    ctx.floor('repair step functions that flip and enqueue', STEP_FLOOR, n, cfg)


def _reads_field(b, al, o, field):
    if o.place is None:
        return False
    seen = set()
    work = [o.place]
    while work:
        pl = work.pop()
        root, fields, _ = al.norm(pl)
        if fields and fields[-1] == field:
            return True
        if pl.is_local() and pl.local not in seen:
            seen.add(pl.local)
            for (bb, idx, node) in b.defs.get(pl.local, []):
                if idx != 'term' and node.rv.k in ('use', 'deref_copy'):
                    src = node.rv.place if node.rv.k == 'deref_copy' else (node.rv.ops[0].place if node.rv.ops else None)
                    if src is not None:
                        work.append(src)
    return False


def _admissible(ctx, cfg, prog, lv):
    U = set(DRIVERS)
    changed = True
    sites = 0
    while changed:
        changed = False
        for q, b in prog.bodies.items():
            if q in U:
                continue
            targets = []
            for bb, t in b.calls():
                if any(x in U for x in (t.resolved, t.callee) if x):
                    targets.append(bb)
            for blk in b.blocks:
                if blk.cleanup:
                    continue
                for s in blk.stmts:
                    if s.kind == 'A' and s.rv.k == 'agg' and s.rv.raw.get('ak') == 'closure' and s.rv.raw['def'] in U:
                        targets.append(blk.idx)
            if not targets:
                continue
            r = gate.must_pass(prog, lv, b, {ADM}, mode='any', targets=targets,
                               extra_cut_edges=_variant_gate_edges(prog, lv, b))
            if not r['ok']:
                U.add(q)
                changed = True
    direct = [(q, bb) for q, b in prog.bodies.items() for bb, t in b.calls() if (t.resolved or t.callee) in DRIVERS]
    ctx.floor('call sites of the repair drivers', 9, len(direct), cfg)
    n = 0
    for q, b in sorted(prog.bodies.items()):
        if b.kind == 'closure' or not b.exported:
            continue
        rs = lv.reach_set(q)
        if not (rs & DRIVERS):
            continue
        n += 1
        ok = q not in U
        ctx.ob('ADMISSIBLE', q, cfg, ok,
               'every path to a repair driver passes is_admissible_under == true' if ok else
               'a repair driver (%s) is reachable from %s without the admissibility predicate having answered true: '
               'repair can run under a topology guarantee that does not admit flips' % (
                   ', '.join(sorted(d.rsplit('::', 1)[-1] for d in DRIVERS)), q),
               site='%s:%d' % (b.file, b.line))
    ctx.floor('exported functions that can reach a repair driver', 10, n, cfg)
    ctx.info.setdefault('admissibility_ungated_internal', {})[cfg] = sorted(U - DRIVERS)[:30]


INVALID_TOPOLOGY = ('core::algorithms::flips::DelaunayRepairError', 'InvalidTopology')
_REFUSERS = {}


def _refuses_with_invalid_topology(prog, lv, q):
    """In q, the false edge of is_admissible_under reaches only exits that construct
    DelaunayRepairError::InvalidTopology (so any other error, or Ok, implies admissible)."""
    if q in _REFUSERS:
        return _REFUSERS[q]
    res = False
    b = prog.bodies.get(q)
    if b is not None:
        false_edges = set()
        for bb, t in b.calls():
            if (t.resolved or t.callee) == ADM:
                false_edges |= flow.call_flow(b, bb).err_edges
        if false_edges:
            region = flow.reach_edges(b, [d for (_, d) in false_edges])
            exits = [e for e in flow.exit_assignments(b) if e['bb'] in region]
            ok = bool(exits)
            for e in exits:
                if e['cls'] != 'err':
                    ok = False
                    continue
                inner = False
                for o in e['stmt'].rv.ops:
                    if o.place is None:
                        continue
                    for (dbb, idx, node) in b.defs.get(o.place.local, []):
                        if idx != 'term' and node.rv.k == 'agg' and \
                                (node.rv.raw.get('adt'), node.rv.raw.get('variant')) == INVALID_TOPOLOGY:
                            inner = True
                ok = ok and inner
            res = ok
    _REFUSERS[q] = res
    return res


def _variant_gate_edges(prog, lv, body):
    """Edges of `body` taken only when a call to an InvalidTopology-refuser returned Ok or an
    error variant other than InvalidTopology: on those edges admissibility was answered true."""
    adt = prog.adts.get(INVALID_TOPOLOGY[0])
    if adt is None:
        return set()
    names = [v['name'] for v in adt['variants']]
    if INVALID_TOPOLOGY[1] not in names:
        return set()
    bad_idx = names.index(INVALID_TOPOLOGY[1])
    edges = set()
    uses = flow._collect_uses(body)
    for bb, t in body.calls():
        g = t.resolved or t.callee
        if g not in prog.bodies or not _refuses_with_invalid_topology(prog, lv, g):
            continue
        cf = flow.call_flow(body, bb)
        edges |= cf.ok_edges
        if t.dest is None or not t.dest.is_local():
            continue
        d = t.dest.local
        for blk in body.blocks:
            if blk.cleanup:
                continue
            for s in blk.stmts:
                if s.kind == 'A' and s.rv.k == 'discr' and s.rv.place.local == d and \
                        s.rv.place.proj[:2] == ('@Err', '.0') and s.place.is_local():
                    for (sbb, _, snode, how) in uses.get(s.place.local, []):
                        if how == 'switch':
                            listed = {v: tg for v, tg in snode.values}
                            for v, tg in listed.items():
                                if v != bad_idx and tg != listed.get(bad_idx, snode.otherwise):
                                    edges.add((sbb, tg))
    return edges


def _postcond(ctx, cfg, prog, lv):
    cands = {q for q, b in prog.bodies.items() if VERIFY in lv.reach_set(q) and q != VERIFY}
    C, detail = gate.certified_set(prog, lv, {VERIFY}, cands)
    for q in PUBLIC_ENTRIES + [F + 'repair_delaunay_with_flips_k2_k3']:
        b = ctx.anchor(cfg, q)
        if b is None:
            continue
        ok = q in C
        d = detail.get(q, {})
        ctx.ob('POSTCOND', q, cfg, ok,
               'every Ok exit lies behind the success edge of verify_repair_postcondition (directly or through a callee '
               'with the same property)' if ok else
               'an Ok exit of %s (blocks %s) is reachable without passing the success edge of the post-condition '
               'verifier; gates seen: %s' % (q, d.get('escaping'), [g[1].rsplit('::', 1)[-1] for g in d.get('gates', [])]),
               site='%s:%d' % (b.file, b.line))
        if cfg == ctx.cfgs[0]:
            ctx.sample({'rule': 'POSTCOND', 'function': q, 'certified': ok})
    ctx.info.setdefault('postcond_certified', {})[cfg] = sorted(C)


def _nodrop(ctx, cfg, prog, lv):
    L4 = set(tables.L4_VERIFY) | {tables.L4_BRUTE}
    for l in L4:
        ctx.anchor(cfg, l)
    S, off = gate.sound_validators(prog, lv, L4)
    ctx.floor('pure Delaunay verifiers above the L4 leaves', 6, len([q for q in S if prog.bodies[q].kind != 'closure']) +
              len([q for q in off if prog.bodies[q].kind != 'closure']), cfg)
    for q in sorted(S):
        b = prog.bodies[q]
        if b.kind == 'closure':
            continue
        ctx.ob('NODROP', q, cfg, True, 'no leaf / verifier result dropped or swallowed', site='%s:%d' % (b.file, b.line))
    for q, bad in sorted(off.items()):
        b = prog.bodies[q]
        ctx.ob('NODROP', b.root or q, cfg, False,
               '; '.join('%s: %s' % (n.rsplit('::', 1)[-1], why) for (_, n, why) in bad), site='%s:%d' % (b.file, b.line))
