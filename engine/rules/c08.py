"""C08 — flip-based repair (structural clauses).

 BUDGET      in every repair step, between a successful flip and the enqueueing of the new cells the
             flip counter is incremented and compared with the budget; the exceeding edge fails;
 ADMISSIBLE  no exported function reaches a repair driver without the admissibility predicate
             (TopologicalOperation::is_admissible_under) having answered true on the way;
 POSTCOND    every public repair entry point, and every function it relies on for its Ok, reports
             success only behind the success edge of the post-condition verifier;
 NODROP      the verifiers above the four flip-predicate post-condition checkers drop no result;
 (TXN for the two entry points is C03.)
 SAMEVERTS   the flip drivers cannot change the vertex key set (effect summary); the heuristic rebuild
             — the only repair path that re-inserts vertices — feeds every stored vertex (UUID, point and
             data read from the stored vertex, no filtering adaptor) and turns a skipped insertion
             into Err instead of going on to the next vertex.
 SEEDCOVER   the work-list seeding shared by the repair loop and by the post-condition verifier
             (`seed_repair_queues`) enqueues, for every present cell it iterates over, all simplex
             classes (facets, ridges, edges, triangles) — no class is skipped on some path of an
             iteration (a class that is never enqueued is neither repaired nor *verified*).
 POSTORIENT  flips mutate cell orderings; the repaired triangulation is exposed (an exported operation returns
             Ok) only after the geometric orientation was re-validated — the step the insertion path performs
             after its local repair (least fixed point "can return success after a flip driver succeeded
             without passing validate_geometric_cell_orientation").
Not decided: convergence, equality with the unique Delaunay triangulation."""
import flow
import valueflow
import gate
import pair
import tables

EXPLANATION = (
    "BUDGET: per repair step function, must-pass-through from the success edge of apply_bistellar_flip_* to "
    "enqueue_new_cells_for_repair via (i) the increment of stats.flips_performed and (ii) the within-budget edge of "
    "its comparison with max_flips, whose other edge reaches no success exit. ADMISSIBLE: least fixed point over the "
    "call graph of 'reaches a repair driver without a dominating true edge of is_admissible_under'. POSTCOND: greatest "
    "fixed point 'every success exit is dominated by the success edge of verify_repair_postcondition or of a call to "
    "a function with that property'. NODROP: result-flow check of the pure verifiers. Convergence is not decided.")

F = 'core::algorithms::flips::'
D_ = 'core::delaunay_triangulation::DelaunayTriangulation::'
DRIVERS = {F + 'repair_delaunay_with_flips_k2_k3', F + 'repair_delaunay_local_single_pass'}
ADM = 'core::operations::TopologicalOperation::is_admissible_under'
VERIFY = F + 'verify_repair_postcondition'
ENQ = F + 'enqueue_new_cells_for_repair'
PUBLIC_ENTRIES = [D_ + 'repair_delaunay_with_flips', D_ + 'repair_delaunay_with_flips_advanced']
STEP_FLOOR = 5


def run(ctx):
    ctx.rule('BUDGET', 'flip -> counter increment -> budget comparison (exceeding edge fails) -> enqueue')
    ctx.rule('ADMISSIBLE', 'repair drivers are reachable from exported functions only behind is_admissible_under == true')
    ctx.rule('POSTCOND', 'Ok of the public repair entry points is dominated by the success edge of the post-condition verifier')
    ctx.rule('NODROP', 'Delaunay verifiers drop no checker result')
    ctx.rule('SAMEVERTS', 'flip drivers never change the vertex key set; the heuristic rebuild re-inserts every stored '
                          'vertex and fails on a skipped one')
    for cfg in ctx.cfgs:
        prog = ctx.prog(cfg)
        mod = ctx.mod(cfg)
        lv = gate.Leaves(prog)
        _budget(ctx, cfg, prog, mod)
        _admissible(ctx, cfg, prog, lv)
        _postcond(ctx, cfg, prog, lv)
        _nodrop(ctx, cfg, prog, lv)
        _sameverts(ctx, cfg, prog, mod)
        _seedcover(ctx, cfg, prog, mod)
        _seedsome(ctx, cfg, prog, mod)
        _postorient(ctx, cfg, prog, lv)
        import verdict
        verdict.rule(ctx, cfg, prog)
    return ctx.finish(EXPLANATION)


ORIENT = 'core::triangulation::Triangulation::validate_geometric_cell_orientation'
# exported operations in which an un-normalised orientation after a flip driver is accepted, with the reason
POSTORIENT_TABLE = {}


def _closure_operands(body, t):
    out = []
    for o in t.args:
        if o.kind == 'k' and o.const and 'closure' in o.const:
            out.append(o.const['closure'])
        elif o.place is not None and o.place.is_local():
            d = body.single_def(o.place.local)
            if d is not None and d[1] != 'term' and d[2].rv.k == 'agg' and d[2].rv.raw.get('ak') == 'closure':
                out.append(d[2].rv.raw['def'])
    return out


def _success_exits(b):
    rt = flow.type_kind(b.locals[0])
    if rt in ('result', 'option'):
        return [e['bb'] for e in gate.success_exit_blocks(b)]
    return [blk.idx for blk in b.blocks if not blk.cleanup and blk.term.k == 'ret']


def _postorient(ctx, cfg, prog, lv, constructors=False, drivers=None, leaves=None, rule='POSTORIENT', scope=None,
                what='a flip repair driver'):
    drivers = set(DRIVERS) if drivers is None else set(drivers)
    leaves = {ORIENT} if leaves is None else set(leaves)
    ctx.rule(rule, 'no exported operation returns success after %s succeeded without re-validating '
                   'the geometric orientation of the cells' % what)
    for l_ in leaves:
        ctx.anchor(cfg, l_)
    # gates: functions that cannot return success without the orientation check having passed (greatest fixed
    # point), not merely functions from which the check is reachable
    cands = {q for q, b_ in prog.bodies.items() if (leaves & (lv.reach_set(q) | {q})) and flow.type_kind(b_.locals[0]) == 'result'
             and q not in leaves}
    G, _ = gate.certified_set(prog, lv, leaves, cands, zero_counters=('core::triangulation_data_structure::Tds::number_of_cells',))
    orient_reach = set(G) | leaves
    ctx.info.setdefault('orientation_gates_' + rule, {})[cfg] = sorted(orient_reach)
    X = set(drivers)          # bodies that can return success with a driver's un-normalised result
    why = {}
    changed = True
    while changed:
        changed = False
        for q, b in prog.bodies.items():
            if q in X:
                continue
            cflows = None
            starts = []
            failed = set()
            for bb, t in b.calls():
                if any(x in X for x in (t.resolved, t.callee) if x):
                    cflows = cflows or flow.all_call_flows(b)
                    # start right after the call (its result may travel through combinators such as and_then
                    # before it is split) and do not follow the edges on which the driver had failed
                    starts += list(b.succs(bb))
                    failed |= set(cflows[bb].err_edges)
                    if t.dest is not None and t.dest.is_local() and t.dest.local == 0:
                        starts.append(bb)     # `_0 = driver(..)`: the driver's Ok is returned as it is
            for blk in b.blocks:
                if blk.cleanup:
                    continue
                for s_ in blk.stmts:
                    if s_.kind == 'A' and s_.rv.k == 'agg' and s_.rv.raw.get('ak') == 'closure' and s_.rv.raw['def'] in X:
                        starts.append(blk.idx)
            if not starts:
                continue
            cflows = cflows or flow.all_call_flows(b)
            via = set()
            for bb, t in b.calls():
                names = [x for x in (t.resolved, t.callee) if x]
                if (t.callee or '').rsplit('::', 1)[-1] == 'and_then':
                    # `r.and_then(|_| check())`: Ok of the combinator implies the closure ran and returned Ok
                    names += _closure_operands(b, t)
                if any(x in orient_reach for x in names) and not any(x in X for x in (t.resolved, t.callee) if x):
                    cf = cflows[bb]
                    via |= cf.ok_edges
                    if not cf.ok_edges and not cf.err_edges:
                        via |= {(bb, s_) for s_ in b.succs(bb)}
            # with no cells there is nothing whose orientation could be wrong
            zero = gate._zero_edges(b, 'core::triangulation_data_structure::Tds::number_of_cells')
            reach = flow.reach_edges_cp(b, starts, avoid_edges=via | (failed - via) | zero)
            esc = [x for x in _success_exits(b) if x in reach]
            if esc:
                X.add(q)
                why[q] = esc
                changed = True
    n = 0
    for q, b in sorted(prog.bodies.items()):
        if b.kind == 'closure' or not b.exported:
            continue
        if not (lv.reach_set(q) & drivers):
            continue
        if scope is not None and not scope(q, b):
            continue
        is_ctor = 'DelaunayTriangulation<' in b.locals[0] and not any(
            pair.pointee_head(b.locals[i_])[0] in (pair.TRI, pair.DT) and pair.pointee_head(b.locals[i_])[1]
            for i_ in range(1, b.nargs + 1))
        if is_ctor != constructors:
            continue      # constructors are judged under C01, operations on a live triangulation under C08
        n += 1
        ok = q not in X
        msg_ok = 'success is reported only after the orientation check passed (or none of the primitives succeeded on the path)'
        msg_bad = ('a success exit (blocks %s) is reachable after %s succeeded without re-validating the geometric orientation: '
                   'the triangulation can be exposed with negatively oriented or degenerate cells (Level 3 invalid)' % (why.get(q), what))
        ctx.ob(rule, q, cfg, ok, msg_ok if ok else msg_bad, assumed=POSTORIENT_TABLE.get(q), site='%s:%d' % (b.file, b.line))
    ctx.floor('exported %s that can reach %s (%s)' % ('constructors' if constructors else 'operations', what, rule), 2 if scope else 3, n, cfg)
    ctx.info.setdefault('unnormalised_internal_' + rule, {})[cfg] = sorted(x for x in X - drivers if prog.bodies[x].kind != 'closure')[:40]


SEEDQ = F + 'seed_repair_queues'
CELL_FAMILIES = {'ridges': F + 'enqueue_cell_ridges', 'edges': F + 'enqueue_cell_edges',
                 'triangles': F + 'enqueue_cell_triangles'}
FACET_CELL = F + 'enqueue_cell_facets'
FACET_ONE = F + 'enqueue_facet'
CONTAINS = 'core::triangulation_data_structure::Tds::contains_cell'


def _cycle_avoiding(body, h, nodes, avoid_blocks, avoid_edges):
    """Is there a cycle h -> .. -> h inside `nodes` that avoids the given blocks and edges?"""
    seen = set()
    work = [(h, s_) for s_ in body.succs(h)]
    while work:
        (a, x) = work.pop()
        if (a, x) in avoid_edges or x not in nodes or x in avoid_blocks:
            continue
        if x == h:
            return True
        if x in seen:
            continue
        seen.add(x)
        for s_ in body.succs(x):
            work.append((x, s_))
    return False


_MUST = {}


def _must_callers(prog, target, depth=3):
    """Crate functions in which every path from entry to a success exit passes a call of `target`
    (directly or through another such function)."""
    key = (id(prog), target)
    if key in _MUST:
        return _MUST[key]
    M = set()
    for _ in range(depth):
        grew = False
        for q, b in prog.bodies.items():
            if q in M or q == target or b.kind == 'closure' or not q.startswith(F):
                continue
            blocks = {bb for bb, t in b.calls() if (t.resolved or t.callee) == target or (t.resolved or t.callee) in M}
            if not blocks:
                continue
            exits = [blk.idx for blk in b.blocks if not blk.cleanup and blk.term.k == 'ret']
            if flow.type_kind(b.locals[0]) in ('result', 'option'):
                exits = [e['bb'] for e in gate.success_exit_blocks(b)]
            reach = flow.reach_edges(b, [0], avoid_blocks=blocks)
            if exits and not any(x in reach for x in exits):
                M.add(q)
                grew = True
        if not grew:
            break
    _MUST[key] = M
    return M


SEED_PARAM_TY = 'std::option::Option<&[core::triangulation_data_structure::CellKey]>'
FRESH_EMPTY = ('new', 'with_capacity', 'default', 'new_const')
MAYBE_EMPTY = ('collect', 'from_iter', 'filter', 'retain', 'drain', 'take', 'split_off', 'clone_from', 'to_vec', 'into_vec')
FILLS = ('push', 'extend', 'extend_from_slice', 'insert', 'append', 'insert_many', 'push_back', 'extend_from_within')


def _seedsome(ctx, cfg, prog, mod):
    """SEEDSOME: `Some(seeds)` restricts the flip repair *and* its post-condition verifier to the simplices around
    the seed cells; an explicitly empty seed set makes both look at nothing and report success (`None` = global).
    At every call that hands a `Some(slice)` to a function with an `Option<&[CellKey]>` seed parameter, the buffer
    behind the slice is non-empty by construction: if the buffer local can come from an empty constructor
    (`new` / `with_capacity` / `default`) or from a filtering collection (`collect`, `filter`, ...), then every path
    from that definition to the `Some` passes a fill of the buffer (push / extend / a later whole assignment from
    another value) or the non-empty edge of an `is_empty()` test on it.  Buffers taken from a callee's result
    (`FlipInfo::new_cells`) are that callee's business."""
    ctx.rule('SEEDSOME', 'a Some(seed cells) handed to the flip repair is non-empty by construction')
    n = 0
    for q, b in sorted(prog.bodies.items()):
        if '::tests::' in q or not b.file.startswith('src/'):
            continue
        al = None
        for bb, t in b.calls():
            name = t.resolved or t.callee or ''
            cb = prog.bodies.get(name)
            if cb is None:
                continue
            for i in range(1, cb.nargs + 1):
                if cb.locals[i].replace("'_ ", '').replace(' ', '') != SEED_PARAM_TY.replace(' ', '') or i - 1 >= len(t.args):
                    continue
                a = t.args[i - 1]
                if a.place is None:
                    continue
                al = al or mod.aliases(q)
                n += 1
                # buffers behind the Some(..): locals of CellKey buffer type in the backward slice
                leaves = valueflow.sources(b, al, a.place.local)
                bufs = set()
                take = {}      # buffer local -> blocks in which the slice handed on is taken from it
                work = [(a.place.local, frozenset())]
                seen = set()

                def _is_buf(ty_):
                    return ('SmallVec<' in ty_ or 'std::vec::Vec<' in ty_) and 'CellKey' in ty_ and \
                        not ty_.startswith('&') and 'Option<' not in ty_

                def _tested_nonempty(o_):
                    """buffers whose `is_empty()` result feeds this bool operand (`(!buf.is_empty()).then(..)`)"""
                    out_ = set()
                    if o_.place is None:
                        return out_
                    for lf in valueflow.sources(b, al, o_.place.local):
                        if lf[0] == 'call' and (lf[1].callee or lf[1].resolved or '').rsplit('::', 1)[-1] == 'is_empty' and lf[1].args:
                            tt_ = al.operand_target(lf[1].args[0])
                            if tt_ is not None:
                                out_.add(tt_[0])
                    return out_

                while work:
                    l, guarded = work.pop()
                    if (l, guarded) in seen:
                        continue
                    seen.add((l, guarded))
                    ty = b.locals[l]
                    if _is_buf(ty):
                        bufs.add(l)
                        continue
                    for (dbb, didx, node) in b.defs.get(l, []):
                        g2 = guarded
                        ops = node.args if didx == 'term' else list(node.rv.ops)
                        if didx == 'term' and (node.callee or node.resolved or '').rsplit('::', 1)[-1] in ('then', 'then_some') and ops:
                            g2 = guarded | frozenset(_tested_nonempty(ops[0]))
                        for o in ops:
                            if o.place is not None:
                                tt = al.operand_target(o)
                                work.append((o.place.local, g2))
                                if tt is not None:
                                    work.append((tt[0], g2))
                                direct = [o.place.local]
                                # a direct borrow `&buf` handed to as_slice / deref / is_empty (not a carrier such as the
                                # Option<&[..]> built from it further down the chain)
                                for (_rb, ridx, rnode) in b.defs.get(o.place.local, []):
                                    if ridx != 'term' and rnode.rv.k == 'ref' and rnode.rv.place is not None and rnode.rv.place.is_local():
                                        direct.append(rnode.rv.place.local)
                                for cand in direct:
                                    if _is_buf(b.locals[cand]) and cand not in g2:
                                        take.setdefault(cand, set()).add(dbb)
                                    elif _is_buf(b.locals[cand]):
                                        take.setdefault(cand, set())
                            elif o.const and 'closure' in o.const:
                                pass
                        if didx != 'term' and node.rv.place is not None:
                            work.append((node.rv.place.local, g2))
                bad = []
                for L in sorted(bufs):
                    empties = []
                    fills = set()
                    for (dbb, didx, node) in b.defs.get(L, []):
                        if didx == 'term':
                            last = (node.callee or node.resolved or '').rsplit('::', 1)[-1]
                            if last in FRESH_EMPTY or last in MAYBE_EMPTY:
                                empties.append((dbb, last))
                            else:
                                fills.add(dbb)
                        else:
                            fills.add(dbb)          # whole assignment from another value
                    if not empties:
                        continue
                    guards = set()
                    for cbb, ct in b.calls():
                        last = (ct.callee or ct.resolved or '').rsplit('::', 1)[-1]
                        if not ct.args or ct.args[0].place is None:
                            continue
                        tt = al.operand_target(ct.args[0])
                        if tt is None or tt[0] != L:
                            continue
                        if last in FILLS:
                            fills.add(cbb)
                        elif last == 'is_empty':
                            guards |= flow.call_flow(b, cbb).err_edges     # false edge: not empty
                    for (dbb, how) in empties:
                        reach = flow.reach_edges(b, b.succs(dbb), avoid_edges=guards, avoid_blocks=fills - {dbb})
                        if take.get(L, {bb}) & reach:
                            bad.append('%s (local _%d from %s())' % (b.locals[L].split('<')[0].rsplit('::', 1)[-1], L, how))
                ctx.ob('SEEDSOME', '%s|%s' % (b.root or q, name.rsplit('::', 1)[-1]), cfg, not bad,
                       'seed argument of %s: %s' % (name.rsplit('::', 1)[-1],
                           ('buffers behind it: %d, each filled or tested non-empty on every path' % len(bufs)) if not bad else
                           'can be Some(<empty>) - %s reaches the call without a fill or a non-empty test: the repair and its '
                           'post-condition verifier then examine nothing and report success on a non-Delaunay complex' % bad[:2]),
                       site='%s:%d' % (b.file, t.line))
    ctx.floor('calls handing seed cells to a repair function', 3, n, cfg)


def _seedcover(ctx, cfg, prog, mod):
    ctx.rule('SEEDCOVER', 'seed_repair_queues and enqueue_new_cells_for_repair enqueue every simplex class for every present cell on every path of an iteration')
    total = 0
    for fq_ in (SEEDQ, ENQ):
        total += _seedcover_fn(ctx, cfg, prog, mod, fq_)
    ctx.floor('cell loops in the work-list seeding functions', 2, total, cfg)


def _seedcover_fn(ctx, cfg, prog, mod, SEEDQ):
    import loops
    b = ctx.anchor(cfg, SEEDQ)
    if b is None:
        return 0
    calls = {}
    for bb, t in b.calls():
        calls.setdefault(t.resolved or t.callee, []).append(bb)
    # a helper that itself passes an enqueue function on every path to a success exit counts as that function
    for fam_q in list(CELL_FAMILIES.values()) + [FACET_CELL]:
        for hq in _must_callers(prog, fam_q):
            for bb in calls.get(hq, []):
                if bb not in calls.setdefault(fam_q, []):
                    calls[fam_q].append(bb)
    # edges taken when the cell is absent (`!tds.contains_cell(key)`): a legitimate skip
    skip_edges = set()
    uses = flow._collect_uses(b)
    for bb in calls.get(CONTAINS, []):
        t = b.blocks[bb].term
        if t.dest is None or not t.dest.is_local():
            continue
        for (sbb, _, snode, how) in uses.get(t.dest.local, []):
            if how == 'switch':
                for v, tg in snode.values:
                    if v == 0:
                        skip_edges.add((sbb, tg))
    lps = loops.natural_loops(b)
    facet_loop_headers = {h for h, nodes in lps.items() if any(x in nodes for x in calls.get(FACET_ONE, []))}
    n = 0
    site = '%s:%d' % (b.file, b.line)
    for h, nodes in sorted(lps.items()):
        fams_here = {f for f, q in CELL_FAMILIES.items() if any(x in nodes for x in calls.get(q, []))}
        has_facets_here = any(x in nodes for x in calls.get(FACET_CELL, []))
        if not fams_here and not has_facets_here:
            continue
        n += 1
        key = '%s|loop%d' % (SEEDQ, n)
        for f, q in sorted(CELL_FAMILIES.items()):
            blocks = {x for x in calls.get(q, []) if x in nodes}
            bad = not blocks or _cycle_avoiding(b, h, nodes, blocks, skip_edges)
            ctx.ob('SEEDCOVER', key + '|' + f, cfg, not bad,
                   ('every iteration over a present cell passes %s' % q.rsplit('::', 1)[-1]) if not bad else
                   ('an iteration of the cell loop at line %d can complete without %s: that simplex class is neither '
                    'repaired nor checked by the post-condition verifier on that path' % (b.blocks[h].term.line, q.rsplit('::', 1)[-1])),
                   site=site)
        fblocks = {x for x in calls.get(FACET_CELL, []) if x in nodes}
        per_iter = bool(fblocks) and not _cycle_avoiding(b, h, nodes, fblocks, skip_edges)
        before = bool(facet_loop_headers) and h not in flow.reach_edges(b, [0], avoid_blocks=facet_loop_headers)
        ctx.ob('SEEDCOVER', key + '|facets', cfg, per_iter or before,
               'facets are enqueued %s' % ('per iteration (enqueue_cell_facets)' if per_iter else
                                           'by a preceding loop over all facets (enqueue_facet)' if before else
                                           'on NO path guaranteed to run with this cell loop'), site=site)
    return n



REBUILD = D_ + 'rebuild_with_heuristic'
COLLECT = D_ + 'collect_vertices_for_rebuild'
VERTS = 'core::triangulation_data_structure::Tds::vertices'
VNEW = 'core::vertex::Vertex::new_with_uuid'
OUTCOME = 'core::operations::InsertionOutcome'
FILTERING = {'filter', 'filter_map', 'take', 'skip', 'step_by', 'take_while', 'skip_while', 'truncate', 'retain',
             'dedup', 'dedup_by', 'dedup_by_key', 'pop', 'drain', 'split_off'}
FLIP_ONLY = [F + 'repair_delaunay_with_flips_k2_k3', F + 'repair_delaunay_local_single_pass',
             D_ + 'repair_delaunay_with_flips', D_ + 'repair_delaunay_with_flips_robust']


def _family(prog, q):
    out = [q]
    for c in prog.children.get(q, []):
        out += _family(prog, c)
    return out


def _sameverts(ctx, cfg, prog, mod):
    # 1. effect summary: the flip drivers never write the vertex maps themselves
    res = pair.Resources(prog, mod)
    eng = pair.PairEngine(prog, mod, res, m_pred=lambda rel: rel in (('vertices',), ('uuid_to_vertex_key',)),
                          b_prim=lambda *a: False, snapshot_resets=True)
    eng.solve()
    n = 0
    for q in FLIP_ONLY:
        b = ctx.anchor(cfg, q)
        if b is None:
            continue
        for i, r in enumerate(res.res.get(q, [])):
            if not r['mut']:
                continue
            n += 1
            summ = eng.summary[(q, i)]
            bad = any(m for (m, _) in summ)
            detail = 'vertex key-set effect: %s' % sorted(summ)
            if bad:
                detail += '; a path inserts into / removes from Tds.vertices or uuid_to_vertex_key: ' + ' -> '.join(
                    pair.blame_chain(eng, q, i))
            ctx.ob('SAMEVERTS', q + '|no-vertex-keyset-write', cfg, not bad, detail, site='%s:%d' % (b.file, b.line))
    ctx.floor('flip-only repair drivers with a mutable Tds', 4, n, cfg)
    # positive control: the engine sees a vertex key-set write where there is one
    ctl = 'core::triangulation_data_structure::Tds::insert_vertex_with_mapping'
    seen = any(m for i in range(len(res.res.get(ctl, []))) for (m, _) in eng.summary.get((ctl, i), ()))
    ctx.floor('positive control: insert_vertex_with_mapping writes the vertex key set', 1, 1 if seen else 0, cfg)
    # 2. the rebuild feeds every stored vertex
    cb = ctx.anchor(cfg, COLLECT)
    rb = ctx.anchor(cfg, REBUILD)
    if cb is None or rb is None:
        return
    fam = _family(prog, COLLECT)
    names = []
    for q in fam:
        for bb, t in prog.bodies[q].calls():
            names.append((t.resolved or t.callee or '').rsplit('::', 1)[-1])
    src_ok = any((t.resolved or t.callee) == VERTS for bb, t in cb.calls())
    filt = sorted(set(names) & FILTERING)
    ctx.ob('SAMEVERTS', COLLECT + '|all-stored-vertices', cfg, src_ok and not filt,
           'source = Tds::vertices: %s; filtering adaptors in the collection chain: %s' % (src_ok, filt or 'none'),
           site='%s:%d' % (cb.file, cb.line))
    # element constructor reads uuid, point and data of the stored vertex
    ctor_ok, why = False, 'no Vertex::new_with_uuid call in the collection chain'
    for q in fam:
        b = prog.bodies[q]
        al = mod.aliases(q)
        for bb, t in b.calls():
            if (t.resolved or t.callee) != VNEW or len(t.args) < 3:
                continue
            import valueflow
            got = []
            for o, want in zip(t.args[:3], ('point', 'uuid', 'data')):
                leaves = valueflow.sources(b, al, o.place.local) if o.place is not None else []
                hit = False
                for l in leaves:
                    if l[0] == 'call' and (l[1].resolved or l[1].callee or '').rsplit('::', 1)[-1] == want:
                        hit = True
                    if l[0] == 'place' and l[1][1] and l[1][1][-1] == want:
                        hit = True
                got.append(hit)
            ctor_ok = all(got)
            why = 'Vertex::new_with_uuid(point, uuid, data) arguments read from the stored vertex: %s' % got
    ctx.ob('SAMEVERTS', COLLECT + '|same-uuid-point-data', cfg, ctor_ok, why, site='%s:%d' % (cb.file, cb.line))
    # rebuild uses the collection
    uses = any((t.resolved or t.callee) == COLLECT for bb, t in rb.calls())
    rfam = _family(prog, REBUILD)
    rnames = []
    for q in rfam:
        for bb, t in prog.bodies[q].calls():
            nm = (t.resolved or t.callee or '')
            # adaptor calls on the vertex vector only (receiver type mentions Vertex)
            if nm.rsplit('::', 1)[-1] in FILTERING and t.args and t.args[0].place is not None and \
                    'vertex::Vertex<' in prog.bodies[q].locals[t.args[0].place.local]:
                rnames.append(nm.rsplit('::', 1)[-1])
    ctx.ob('SAMEVERTS', REBUILD + '|feeds-collection', cfg, uses and not rnames,
           'calls collect_vertices_for_rebuild: %s; filtering adaptors applied to the vertex vector: %s' % (uses, sorted(set(rnames)) or 'none'),
           site='%s:%d' % (rb.file, rb.line))
    # 2b. the rebuild's insertions store the collected coordinates unchanged unless a retry was needed
    import idkeep
    idkeep.check_first_attempt(ctx, cfg, prog, mod, 'SAMEVERTS')
    # 3. Skipped => Err: from the Skipped arm of every match on an InsertionOutcome in the rebuild family, neither an
    #    Ok exit nor the loop header (next vertex) is reachable
    n_sw = 0
    for q in rfam:
        b = prog.bodies[q]
        for blk in b.blocks:
            if blk.cleanup:
                continue
            t = blk.term
            if t.k != 'switch' or t.discr.place is None or not t.discr.place.is_local():
                continue
            d = b.single_def(t.discr.place.local)
            if d is None or d[1] == 'term' or d[2].rv.k != 'discr':
                continue
            src = d[2].rv.place
            if src is None or not b.locals[src.local].startswith(OUTCOME):
                continue
            n_sw += 1
            adt = prog.adts.get(OUTCOME) if hasattr(prog, 'adts') else None
            variants = [v['name'] if isinstance(v, dict) else v for v in (adt or {}).get('variants', [])] if adt else []
            sk_idx = variants.index('Skipped') if 'Skipped' in variants else 1
            listed = {v: tg for v, tg in t.values}
            sk_t = listed.get(sk_idx, t.otherwise)
            reach = flow.reach_edges(b, [sk_t])
            ok_exits = [e['bb'] for e in flow.exit_assignments(b) if e['cls'] == 'ok']
            nexts = [bb for bb, ct in b.calls() if (ct.resolved or ct.callee or '').endswith('::next')]
            bad = [x for x in ok_exits + nexts if x in reach]
            ctx.ob('SAMEVERTS', q + '|skipped-is-error', cfg, not bad,
                   'from the Skipped arm %s' % ('only failing exits are reachable' if not bad else
                                                'the next vertex / an Ok exit is reachable (blocks %s): the rebuilt triangulation can silently lose a vertex' % bad[:4]),
                   site='%s:%d' % (b.file, t.line))
    ctx.floor('matches on InsertionOutcome in the heuristic rebuild', 1, n_sw, cfg)


def _budget(ctx, cfg, prog, mod):
    n = 0
    for q, b in sorted(prog.bodies.items()):
        if b.kind == 'closure':
            continue
        flips = [(bb, t) for bb, t in b.calls() if (t.resolved or t.callee or '').startswith(F + 'apply_bistellar_flip')]
        enq = [bb for bb, t in b.calls() if (t.resolved or t.callee or '').startswith(F + 'enqueue_')]
        if not flips or not enq:
            continue
        n += 1
        al = mod.aliases(q)
        # increments of `.flips_performed`
        inc_blocks = set()
        for blk in b.blocks:
            if blk.cleanup:
                continue
            for s in blk.stmts:
                root, fields, derefd = al.norm(s.place)
                if fields and fields[-1] == 'flips_performed' and s.kind == 'A':
                    inc_blocks.add(blk.idx)
        # comparison flips_performed > max_flips
        within = set()
        exceed = set()
        uses = flow._collect_uses(b)
        for blk in b.blocks:
            if blk.cleanup:
                continue
            for s in blk.stmts:
                if s.kind != 'A' or s.rv.k != 'bin' or s.rv.raw['op'] not in ('Gt', 'Ge', 'Lt', 'Le'):
                    continue
                sides = []
                for o in s.rv.ops:
                    sides.append(_reads_field(b, al, o, 'flips_performed'))
                if not any(sides) or not s.place.is_local():
                    continue
                op = s.rv.raw['op']
                counter_left = sides[0]
                exceeds_when_true = (op in ('Gt', 'Ge')) == counter_left
                for (sbb, _, snode, how) in uses.get(s.place.local, []):
                    if how != 'switch':
                        continue
                    listed = {v: tg for v, tg in snode.values}
                    f_t = listed.get(0)
                    t_t = snode.otherwise if 0 in listed else None
                    if f_t is None or t_t is None:
                        continue
                    if exceeds_when_true:
                        exceed.add((sbb, t_t))
                        within.add((sbb, f_t))
                    else:
                        exceed.add((sbb, f_t))
                        within.add((sbb, t_t))
        site = '%s:%d' % (b.file, b.line)
        for fbb, ft in flips:
            cf = flow.call_flow(b, fbb)
            starts = [d for (_, d) in cf.ok_edges]
            key = '%s|%s' % (q, (ft.resolved or ft.callee).rsplit('::', 1)[-1])
            if not starts:
                ctx.ob('BUDGET', key, cfg, False, 'result of the flip is not split into success / failure', site=site)
                continue
            r1 = flow.reach_edges(b, starts, avoid_blocks=inc_blocks)
            r2 = flow.reach_edges(b, starts, avoid_edges=within)
            no_inc = [e for e in enq if e in r1]
            no_cmp = [e for e in enq if e in r2]
            # exceeding edge must not reach a success exit or an enqueue
            ok_exits = [e['bb'] for e in flow.exit_assignments(b) if e['cls'] == 'ok']
            r3 = flow.reach_edges(b, [d for (_, d) in exceed])
            leak = [e for e in ok_exits + enq if e in r3]
            ok = bool(inc_blocks) and bool(within) and not no_inc and not no_cmp and not leak
            why = []
            if not inc_blocks:
                why.append('no increment of flips_performed in the function')
            if not within:
                why.append('no comparison of flips_performed with the budget')
            if no_inc:
                why.append('enqueue reachable from the successful flip without incrementing the counter')
            if no_cmp:
                why.append('enqueue reachable from the successful flip without passing the within-budget edge')
            if leak:
                why.append('the budget-exceeded edge reaches a success exit or an enqueue')
            ctx.ob('BUDGET', key, cfg, ok, '; '.join(why) or
                   'flip -> increment (blocks %s) -> within-budget edge %s -> enqueue' % (sorted(inc_blocks)[:3], sorted(within)[:2]),
                   site='%s:%d' % (b.file, ft.line))
            if cfg == ctx.cfgs[0]:
                ctx.sample({'rule': 'BUDGET', 'function': q, 'flip': (ft.resolved or ft.callee).rsplit('::', 1)[-1], 'ok': ok})
    ctx.floor('repair step functions that flip and enqueue', STEP_FLOOR, n, cfg)


def _reads_field(b, al, o, field):
    if o.place is None:
        return False
    seen = set()
    work = [o.place]
    while work:
        pl = work.pop()
        root, fields, _ = al.norm(pl)
        if fields and fields[-1] == field:
            return True
        if pl.is_local() and pl.local not in seen:
            seen.add(pl.local)
            for (bb, idx, node) in b.defs.get(pl.local, []):
                if idx != 'term' and node.rv.k in ('use', 'deref_copy'):
                    src = node.rv.place if node.rv.k == 'deref_copy' else (node.rv.ops[0].place if node.rv.ops else None)
                    if src is not None:
                        work.append(src)
    return False


def _admissible(ctx, cfg, prog, lv):
    U = set(DRIVERS)
    changed = True
    sites = 0
    while changed:
        changed = False
        for q, b in prog.bodies.items():
            if q in U:
                continue
            targets = []
            for bb, t in b.calls():
                if any(x in U for x in (t.resolved, t.callee) if x):
                    targets.append(bb)
            for blk in b.blocks:
                if blk.cleanup:
                    continue
                for s in blk.stmts:
                    if s.kind == 'A' and s.rv.k == 'agg' and s.rv.raw.get('ak') == 'closure' and s.rv.raw['def'] in U:
                        targets.append(blk.idx)
            if not targets:
                continue
            r = gate.must_pass(prog, lv, b, {ADM}, mode='any', targets=targets,
                               extra_cut_edges=_variant_gate_edges(prog, lv, b))
            if not r['ok']:
                U.add(q)
                changed = True
    direct = [(q, bb) for q, b in prog.bodies.items() for bb, t in b.calls() if (t.resolved or t.callee) in DRIVERS]
    ctx.floor('call sites of the repair drivers', 6, len(direct), cfg)
    n = 0
    for q, b in sorted(prog.bodies.items()):
        if b.kind == 'closure' or not b.exported:
            continue
        rs = lv.reach_set(q)
        if not (rs & DRIVERS):
            continue
        n += 1
        ok = q not in U
        ctx.ob('ADMISSIBLE', q, cfg, ok,
               'every path to a repair driver passes is_admissible_under == true' if ok else
               'a repair driver (%s) is reachable from %s without the admissibility predicate having answered true: '
               'repair can run under a topology guarantee that does not admit flips' % (
                   ', '.join(sorted(d.rsplit('::', 1)[-1] for d in DRIVERS)), q),
               site='%s:%d' % (b.file, b.line))
    ctx.floor('exported functions that can reach a repair driver', 10, n, cfg)
    ctx.info.setdefault('admissibility_ungated_internal', {})[cfg] = sorted(U - DRIVERS)[:30]


INVALID_TOPOLOGY = ('core::algorithms::flips::DelaunayRepairError', 'InvalidTopology')
_REFUSERS = {}


def _refuses_with_invalid_topology(prog, lv, q):
    """In q, the false edge of is_admissible_under reaches only exits that construct
    DelaunayRepairError::InvalidTopology (so any other error, or Ok, implies admissible)."""
    if q in _REFUSERS:
        return _REFUSERS[q]
    res = False
    b = prog.bodies.get(q)
    if b is not None:
        false_edges = set()
        for bb, t in b.calls():
            if (t.resolved or t.callee) == ADM:
                false_edges |= flow.call_flow(b, bb).err_edges
        if false_edges:
            region = flow.reach_edges(b, [d for (_, d) in false_edges])
            exits = [e for e in flow.exit_assignments(b) if e['bb'] in region]
            ok = bool(exits)
            for e in exits:
                if e['cls'] != 'err':
                    ok = False
                    continue
                inner = False
                for o in e['stmt'].rv.ops:
                    if o.place is None:
                        continue
                    for (dbb, idx, node) in b.defs.get(o.place.local, []):
                        if idx != 'term' and node.rv.k == 'agg' and \
                                (node.rv.raw.get('adt'), node.rv.raw.get('variant')) == INVALID_TOPOLOGY:
                            inner = True
                ok = ok and inner
            res = ok
    _REFUSERS[q] = res
    return res


def _variant_gate_edges(prog, lv, body):
    """Edges of `body` taken only when a call to an InvalidTopology-refuser returned Ok or an
    error variant other than InvalidTopology: on those edges admissibility was answered true."""
    adt = prog.adts.get(INVALID_TOPOLOGY[0])
    if adt is None:
        return set()
    names = [v['name'] for v in adt['variants']]
    if INVALID_TOPOLOGY[1] not in names:
        return set()
    bad_idx = names.index(INVALID_TOPOLOGY[1])
    edges = set()
    uses = flow._collect_uses(body)
    for bb, t in body.calls():
        g = t.resolved or t.callee
        if g not in prog.bodies or not _refuses_with_invalid_topology(prog, lv, g):
            continue
        cf = flow.call_flow(body, bb)
        edges |= cf.ok_edges
        if t.dest is None or not t.dest.is_local():
            continue
        d = t.dest.local
        for blk in body.blocks:
            if blk.cleanup:
                continue
            for s in blk.stmts:
                if s.kind == 'A' and s.rv.k == 'discr' and s.rv.place.local == d and \
                        s.rv.place.proj[:2] == ('@Err', '.0') and s.place.is_local():
                    for (sbb, _, snode, how) in uses.get(s.place.local, []):
                        if how == 'switch':
                            listed = {v: tg for v, tg in snode.values}
                            for v, tg in listed.items():
                                if v != bad_idx and tg != listed.get(bad_idx, snode.otherwise):
                                    edges.add((sbb, tg))
    return edges


def _postcond(ctx, cfg, prog, lv):
    cands = {q for q, b in prog.bodies.items() if VERIFY in lv.reach_set(q) and q != VERIFY}
    C, detail = gate.certified_set(prog, lv, {VERIFY}, cands)
    for q in PUBLIC_ENTRIES + [F + 'repair_delaunay_with_flips_k2_k3']:
        b = ctx.anchor(cfg, q)
        if b is None:
            continue
        ok = q in C
        d = detail.get(q, {})
        ctx.ob('POSTCOND', q, cfg, ok,
               'every Ok exit lies behind the success edge of verify_repair_postcondition (directly or through a callee '
               'with the same property)' if ok else
               'an Ok exit of %s (blocks %s) is reachable without passing the success edge of the post-condition '
               'verifier; gates seen: %s' % (q, d.get('escaping'), [g[1].rsplit('::', 1)[-1] for g in d.get('gates', [])]),
               site='%s:%d' % (b.file, b.line))
        if cfg == ctx.cfgs[0]:
            ctx.sample({'rule': 'POSTCOND', 'function': q, 'certified': ok})
    ctx.info.setdefault('postcond_certified', {})[cfg] = sorted(C)


def _nodrop(ctx, cfg, prog, lv):
    L4 = set(tables.L4_VERIFY) | {tables.L4_BRUTE}
    for l in L4:
        ctx.anchor(cfg, l)
    S, off = gate.sound_validators(prog, lv, L4)
    ctx.floor('pure Delaunay verifiers above the L4 leaves', 6, len([q for q in S if prog.bodies[q].kind != 'closure']) +
              len([q for q in off if prog.bodies[q].kind != 'closure']), cfg)
    for q in sorted(S):
        b = prog.bodies[q]
        if b.kind == 'closure':
            continue
        ctx.ob('NODROP', q, cfg, True, 'no leaf / verifier result dropped or swallowed', site='%s:%d' % (b.file, b.line))
    for q, bad in sorted(off.items()):
        b = prog.bodies[q]
        ctx.ob('NODROP', b.root or q, cfg, False,
               '; '.join('%s: %s' % (n.rsplit('::', 1)[-1], why) for (_, n, why) in bad), site='%s:%d' % (b.file, b.line))
