"""VERDICT — a finite boolean abstraction of the tail of a violation predicate.

A local-Delaunay predicate (`delaunay_violation_k2_for_facet`) computes in-sphere *signs* (i32 locals defined by
`Kernel::in_sphere` / `robust_insphere_sign`) and turns them into a bool verdict.  The signs are touched only through
comparisons with literals, and everything else that decides the verdict is a bool (a configuration flag, a comparison
of the const dimension with a literal, the result of a call).  So the tail of the function — from the first block that
dominates the return and from which no sign is written any more — is a finite boolean program: it is executed here
for every valuation of its atoms

    (sign local  <op>  literal)      (const generic <op> literal)      bool field read      bool call result

by a depth-first walk that branches where an atom is first needed and keeps each atom's value fixed along a path
(a sign variable compared with the literal 0 is one three-valued atom: negative / zero / positive).
The rule: on every path on which some atom `sign > 0` is true, the verdict is `true` (a positive in-sphere sign is a
violation; nothing may mask it).  No arithmetic is interpreted and no solver is involved.
"""
from collections import namedtuple

SIGN_DEFS = ('::in_sphere', 'robust_insphere_sign')
Path = namedtuple('Path', 'true false result blocks')

_NEG = {'Gt': 'Le', 'Le': 'Gt', 'Ge': 'Lt', 'Lt': 'Ge', 'Eq': 'Ne', 'Ne': 'Eq'}


def sign_locals(body):
    out = set()
    for bb, t in body.calls():
        name = t.resolved or t.callee or ''
        if any(name.endswith(s) or s in name for s in SIGN_DEFS) and t.dest is not None and t.dest.is_local():
            ty = body.locals[t.dest.local]
            if ty == 'i32':
                out.add(t.dest.local)
            elif 'Result<i32' in ty:
                # `match kernel.in_sphere(..) { Ok(v) => v, Err(e) => return .. }`: the i32 moved out of the Ok payload
                for blk in body.blocks:
                    for s in blk.stmts:
                        if s.kind == 'A' and s.place.is_local() and s.rv.k == 'use' and s.rv.ops and \
                                s.rv.ops[0].place is not None and s.rv.ops[0].place.local == t.dest.local and \
                                body.locals[s.place.local] == 'i32':
                            out.add(s.place.local)
    # plain copies into the named mutable variable (`let mut in_a = <temp>`)
    changed = True
    while changed:
        changed = False
        for blk in body.blocks:
            for s in blk.stmts:
                if s.kind == 'A' and s.place.is_local() and s.place.local not in out and s.rv.k == 'use' and s.rv.ops and \
                        s.rv.ops[0].place is not None and s.rv.ops[0].place.is_local() and s.rv.ops[0].place.local in out \
                        and body.locals[s.place.local] == 'i32':
                    # only variables that are *re-assigned* from signs elsewhere too (the named variable), not compare temps
                    defs = body.defs.get(s.place.local, [])
                    if len(defs) > 1:
                        out.add(s.place.local)
                        changed = True
    return out


def ok_return_blocks(body):
    """(block, payload operand) of `_0 = Result::Ok{payload}` with a bool payload."""
    out = []
    for blk in body.blocks:
        if blk.cleanup:
            continue
        for s in blk.stmts:
            if s.kind == 'A' and s.place.is_local() and s.place.local == 0 and s.rv.k == 'agg' and \
                    s.rv.raw.get('ak') == 'adt' and str(s.rv.raw.get('variant')) in ('Ok', '0') and s.rv.ops:
                out.append((blk.idx, s.rv.ops[0]))
    return out


def start_block(body, signs, ret_bb):
    """First block on the dominator chain of the return from which no write of a sign local is reachable."""
    import flow
    writes = set()
    for l in signs:
        for (bb, idx, node) in body.defs.get(l, []):
            writes.add(bb)
    doms = body.dominators().get(ret_bb, set())
    cands = []
    for d in doms:
        reach = flow.reach_edges(body, body.succs(d))
        if not (reach & writes) and d not in writes:
            cands.append(d)
    # the earliest = the one that dominates all other candidates
    for c in cands:
        if all(body.dominates(c, o) for o in cands):
            return c
    return None


class Walker:
    def __init__(self, body, signs, limit=20000):
        self.b = body
        self.signs = signs
        self.limit = limit
        self.n = 0
        self.paths = []
        self.truncated = False

    # -- operands
    def _canon(self, op, copies):
        if op.kind == 'k':
            c = op.const
            return ('K', str(c.get('i', c.get('v'))))
        p = op.place
        if p.is_local():
            l = p.local
            seen = set()
            while l in copies and l not in seen:
                seen.add(l)
                l = copies[l]
            return ('L', l)
        return ('P', repr(p))

    def _atom_name(self, a):
        def nm(x):
            if x[0] == 'K':
                return x[1].replace('_usize', '').replace('_i32', '')
            if x[0] == 'L':
                return self.b.names.get(x[1]) or ('sign_%d' % x[1] if x[1] in self.signs else '_%d' % x[1])
            return x[1].rsplit('.', 1)[-1].rstrip(')')
        if a[0] == 'sgn':
            return '%s %s 0' % (nm(('L', a[1])), {1: '>', 0: '=', -1: '<'}[a[2]])
        if a[0] == 'cmp':
            return '%s %s %s' % (nm(a[1]), a[2], nm(a[3]))
        return a[1].rsplit('.', 1)[-1].rstrip(')')

    def relevant(self, a):
        """Atoms that name a sign, the const dimension or a configuration flag (not comparisons among temporaries)."""
        if a[0] == 'flag':
            return '@bb' not in a[1]
        if a[0] == 'sgn':
            return True
        ops = (a[1], a[3])
        return any(o[0] == 'L' and o[1] in self.signs for o in ops) or any(o[0] == 'K' and not o[1][:1].isdigit() and o[1][:1] != '-' for o in ops)

    def run(self, start, ret_bb, payload):
        self.ret_bb = ret_bb
        self.payload = payload
        self._go(start, 0, {}, {}, {}, [], frozenset())
        return self.paths

    def _val(self, op, env, atoms):
        """bool value of an operand: True / False / None (unknown) / ('atom', a) for an undecided atom."""
        if op.kind == 'k':
            v = str(op.const.get('v'))
            if v == 'true':
                return True
            if v == 'false':
                return False
            return None
        p = op.place
        if p.is_local():
            return env.get(p.local)
        a = ('flag', repr(p))
        return atoms[a] if a in atoms else ('atom', a)

    def _go(self, bb, idx, env, copies, atoms, trail, seen):
        self.n += 1
        if self.n > self.limit:
            self.truncated = True
            return
        key = (bb, idx, tuple(sorted(env.items())), tuple(sorted(atoms.items())))
        if key in seen:
            return
        seen = seen | {key}
        env = dict(env)
        copies = dict(copies)
        stmts = self.b.blocks[bb].stmts
        i = idx
        while i < len(stmts):
            s = stmts[i]
            i += 1
            if s.kind != 'A' or not s.place.is_local():
                continue
            d = s.place.local
            ty = self.b.locals[d]
            rv = s.rv
            if bb == self.ret_bb and d == 0:
                v = self._val(self.payload, env, atoms)
                if isinstance(v, tuple):
                    for choice in (True, False):
                        a2 = dict(atoms)
                        a2[v[1]] = choice
                        self._emit(a2, choice, trail + [bb])
                else:
                    self._emit(atoms, v, trail + [bb])
                return
            if rv.k == 'use' and rv.ops:
                o = rv.ops[0]
                if ty == 'bool':
                    v = self._val(o, env, atoms)
                    if isinstance(v, tuple):
                        for choice in (True, False):    # undecided atom: branch here, resume after this statement
                            a2 = dict(atoms)
                            a2[v[1]] = choice
                            e2 = dict(env)
                            e2[d] = choice
                            self._go(bb, i, e2, copies, a2, trail, seen)
                        return
                    if v is None:
                        env.pop(d, None)
                    else:
                        env[d] = v
                elif o.place is not None and o.place.is_local():
                    copies[d] = o.place.local
                else:
                    copies.pop(d, None)
                continue
            if rv.k == 'bin' and ty == 'bool' and len(rv.ops) == 2 and rv.raw.get('op') in _NEG:
                a = ('cmp', self._canon(rv.ops[0], copies), rv.raw['op'], self._canon(rv.ops[1], copies))
                na = ('cmp', a[1], _NEG[a[2]], a[3])
                if a[1][0] == 'L' and a[1][1] in self.signs and a[3] == ('K', '0'):
                    # a sign against the literal 0: one three-valued atom per sign variable, so that `> 0`, `== 0`,
                    # `< 0` on the same variable stay consistent along a path
                    sa = ('sgn', a[1][1])
                    ev = {'Gt': lambda c: c > 0, 'Ge': lambda c: c >= 0, 'Lt': lambda c: c < 0, 'Le': lambda c: c <= 0,
                          'Eq': lambda c: c == 0, 'Ne': lambda c: c != 0}[a[2]]
                    if sa in atoms:
                        env[d] = ev(atoms[sa])
                        continue
                    for cls in (1, 0, -1):
                        a2 = dict(atoms)
                        a2[sa] = cls
                        e2 = dict(env)
                        e2[d] = ev(cls)
                        self._go(bb, i, e2, copies, a2, trail, seen)
                    return
                if a in atoms:
                    env[d] = atoms[a]
                elif na in atoms:
                    env[d] = not atoms[na]
                else:
                    for choice in (True, False):
                        a2 = dict(atoms)
                        a2[a] = choice
                        e2 = dict(env)
                        e2[d] = choice
                        self._go(bb, i, e2, copies, a2, trail, seen)
                    return
                continue
            if rv.k == 'un' and ty == 'bool' and rv.raw.get('op') == 'Not' and rv.ops:
                v = self._val(rv.ops[0], env, atoms)
                if isinstance(v, bool):
                    env[d] = not v
                else:
                    env.pop(d, None)
                continue
            env.pop(d, None)
            copies.pop(d, None)
        self._term(bb, env, copies, atoms, trail, seen)

    def _term(self, bb, env, copies, atoms, trail, seen):
        t = self.b.blocks[bb].term
        trail = trail + [bb]
        if t.k == 'switch':
            d = t.discr
            v = None
            if d.place is not None and d.place.is_local() and self.b.locals[d.place.local] == 'bool':
                v = env.get(d.place.local)
                if v is None:
                    a = ('flag', '_%d@bb%d' % (d.place.local, bb))
                    for choice in (True, False):
                        a2 = dict(atoms)
                        a2[a] = choice
                        e2 = dict(env)
                        e2[d.place.local] = choice
                        self._follow_bool(t, choice, e2, copies, a2, trail, seen)
                    return
                self._follow_bool(t, v, env, copies, atoms, trail, seen)
                return
            for tg in sorted({tg for _, tg in t.values} | {t.otherwise}):
                if self.b.blocks[tg].term.k == 'unreachable' and not self.b.blocks[tg].stmts:
                    continue
                self._go(tg, 0, env, copies, atoms, trail, seen)
            return
        if t.k == 'call':
            if t.dest is not None and t.dest.is_local():
                env = dict(env)
                env.pop(t.dest.local, None)
                copies = dict(copies)
                copies.pop(t.dest.local, None)
            if t.target is not None:
                self._go(t.target, 0, env, copies, atoms, trail, seen)
            return
        if t.k in ('goto', 'drop', 'assert', 'falseedge', 'falseunwind'):
            tg = t.target if t.target is not None else None
            if tg is not None:
                self._go(tg, 0, env, copies, atoms, trail, seen)
            return
        # ret / unreachable / resume: path ends without an Ok verdict (error return): not judged

    def _follow_bool(self, t, v, env, copies, atoms, trail, seen):
        listed = {val: tg for val, tg in t.values}
        iv = 1 if v else 0
        tg = listed.get(iv, t.otherwise)
        self._go(tg, 0, env, copies, atoms, trail, seen)

    def _emit(self, atoms, result, trail):
        tr = frozenset((a if a[0] != 'sgn' else ('sgn', a[1], v)) for a, v in atoms.items() if (v if a[0] != 'sgn' else True))
        fa = frozenset(a for a, v in atoms.items() if a[0] != 'sgn' and not v)
        self.paths.append(Path(tr, fa, result, tuple(trail)))


def analyse(body):
    """Returns dict(signs, start, paths, masked) or None when the function has no sign locals / bool Ok verdict."""
    signs = sign_locals(body)
    rets = ok_return_blocks(body)
    if not signs or not rets:
        return None
    out = {'signs': sorted(signs), 'masked': [], 'paths': 0, 'truncated': False, 'start': None}
    for ret_bb, payload in rets:
        st = start_block(body, signs, ret_bb)
        if st is None:
            continue
        out['start'] = st
        w = Walker(body, signs)
        paths = w.run(st, ret_bb, payload)
        out['paths'] += len(paths)
        out['truncated'] = out['truncated'] or w.truncated
        out.setdefault('judged', 0)
        for p in paths:
            pos = [a for a in p.true if a[0] == 'sgn' and a[2] > 0]
            if pos:
                out['judged'] += 1
            if pos and p.result is False:
                label = sorted(w._atom_name(a) for a in p.true if w.relevant(a))
                out['masked'].append((tuple(label), p))
    return out


PREDICATES = ('core::algorithms::flips::delaunay_violation_k2_for_facet',)


def rule(ctx, cfg, prog, rule_id='UNMASKED'):
    """Shared by C01 (the verifier behind every certified constructor) and C08 (repair loop and post-condition)."""
    ctx.rule(rule_id, 'in the local-Delaunay predicate a positive in-sphere sign yields the verdict "violation" for every '
                      'valuation of the other conditions (nothing masks it)')
    n = 0
    for q in PREDICATES:
        b = ctx.anchor(cfg, q)
        if b is None:
            continue
        r = analyse(b)
        site = '%s:%d' % (b.file, b.line)
        if r is None or r['start'] is None or not r['paths'] or not r.get('judged'):
            ctx.ob(rule_id, q + '|shape', cfg, False, 'no in-sphere sign locals / bool verdict / verdict tail found in the '
                   'predicate (the rule cannot be evaluated: fail closed)', site=site)
            continue
        n += 1
        labels = sorted({lab for lab, _ in r['masked']})
        if r['truncated']:
            ctx.ob(rule_id, q + '|budget', cfg, False, 'the boolean walk of the verdict tail exceeded its budget', site=site)
        if not labels:
            ctx.ob(rule_id, q, cfg, True, '%d paths through the verdict tail (from bb%d), %d sign variables: every path with a '
                   'positive sign returns Ok(true)' % (r['paths'], r['start'], len(r['signs'])), site=site)
        for lab in labels:
            ctx.ob(rule_id, '%s|%s' % (q, ' & '.join(lab)), cfg, False,
                   'with {%s} the predicate returns Ok(false) although an in-sphere sign is positive: the violation is masked '
                   '(%d paths walked from bb%d)' % (', '.join(lab), r['paths'], r['start']), site=site)
    ctx.floor('local-Delaunay predicates evaluated', 1, n, cfg)
