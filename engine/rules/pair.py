"""PAIR — effect pairing over paths.

Two path facts are propagated through every function that holds a triangulation resource:
M ("the paired-with event, e.g. a storage write, happened") and B ("the pairing event, e.g. a
generation bump, happened").  A callee contributes its summary: the set of (m, b) outcomes it can
return with.  The obligation at every return of an obliged function is that no outcome has
m and not b."""
from collections import defaultdict, deque

import flow
from flow import path_overlaps

TDS = 'core::triangulation_data_structure::Tds'
TRI = 'core::triangulation::Triangulation'
DT = 'core::delaunay_triangulation::DelaunayTriangulation'
STORAGE_PREFIX = {TDS: (), TRI: ('tds',), DT: ('tri', 'tds')}
STORAGE_FIELDS = ('vertices', 'cells', 'uuid_to_vertex_key', 'uuid_to_cell_key')


def pointee_head(ty):
    """`&mut core::x::Tds<..>` -> ('core::x::Tds', mutable)"""
    mut = False
    if ty.startswith('&mut '):
        mut = True
        ty = ty[5:]
    elif ty.startswith('&'):
        ty = ty[1:]
    else:
        return None, False
    head = ty.split('<', 1)[0]
    return head, mut


class Resources:
    """Per body: list of (root local, field prefix of the Tds) for every way the body can reach
    a triangulation's storage: pointer parameters, and (for closures) captured pointers."""

    def __init__(self, prog, mod, prefix_map=None):
        self.prog = prog
        self.mod = mod
        # pointee type head -> field path of the tracked resource below it (default: the Tds)
        self.prefix_map = STORAGE_PREFIX if prefix_map is None else prefix_map
        self.res = {}
        for q, b in prog.bodies.items():
            if b.kind != 'closure':
                self.res[q] = self._param_resources(b)
        # closures: derive from parents (parents first)
        pending = [q for q, b in prog.bodies.items() if b.kind == 'closure']
        guard = 0
        while pending and guard < 10:
            guard += 1
            rest = []
            for q in pending:
                b = prog.bodies[q]
                if b.parent in self.res:
                    self.res[q] = self._closure_resources(b)
                else:
                    rest.append(q)
            pending = rest
        for q in pending:
            self.res[q] = []

    def _param_resources(self, b):
        out = []
        for i in range(1, b.nargs + 1):
            head, mut = pointee_head(b.locals[i])
            if head in self.prefix_map:
                out.append({'root': i, 'prefix': self.prefix_map[head], 'mut': mut, 'param': i, 'cap': None})
        return out

    def _closure_resources(self, b):
        parent = self.prog.bodies.get(b.parent)
        if parent is None:
            return []
        al = self.mod.aliases(parent.q)
        pres = self.res.get(parent.q, [])
        out = []
        for blk in parent.blocks:
            if blk.cleanup:
                continue
            for s in blk.stmts:
                if s.kind == 'A' and s.rv.k == 'agg' and s.rv.raw.get('ak') == 'closure' and s.rv.raw['def'] == b.q:
                    for name, o in zip(s.rv.raw.get('fields', []), s.rv.ops):
                        t = al.operand_target(o)
                        if t is None:
                            continue
                        root, fields, mut = t
                        for r in pres:
                            if r['root'] != root:
                                continue
                            full = r['prefix']
                            # captured pointer targets root.fields; the Tds lives at root.full
                            rp = r.get('rootpath', ())
                            tgt = fields
                            if tgt[:len(rp)] != rp[:len(tgt)]:
                                continue
                            absfull = rp + full
                            if len(tgt) <= len(absfull) and absfull[:len(tgt)] == tgt:
                                out.append({'root': 1, 'rootpath': ('^' + name,),
                                            'prefix': absfull[len(tgt):], 'mut': mut,
                                            'param': None, 'cap': name})
                            elif len(tgt) > len(absfull) and tgt[:len(absfull)] == absfull:
                                out.append({'root': 1, 'rootpath': ('^' + name,), 'prefix': None,
                                            'inside': tgt[len(absfull):], 'mut': mut, 'param': None, 'cap': name})
        # de-duplicate
        seen = set()
        uniq = []
        for r in out:
            k = (r['rootpath'], r.get('prefix'), r.get('inside'))
            if k not in seen:
                seen.add(k)
                uniq.append(r)
        return uniq

    def tds_path(self, r):
        """Absolute field path (below the root local) of the Tds for resource r, or None when
        the resource points inside the Tds already."""
        if r.get('prefix') is None:
            return None
        return r.get('rootpath', ()) + r['prefix']


class PairEngine:
    """Generic (M, B) outcome analysis.  Subclasses / callers supply two predicates:
       is_m_write(path_rel_to_tds) and the B primitive recogniser."""

    def __init__(self, prog, mod, resources, m_fields=STORAGE_FIELDS, b_prim=None, m_prim=None,
                 snapshot_resets=True, m_pred=None, correlated=None, replace_table=None,
                 infeasible=None, replace_is_m=True, b_after_m=False):
        self.prog = prog
        self.mod = mod
        self.R = resources
        self.m_fields = m_fields
        self.b_prim = b_prim or self._bump_prim
        self.m_prim = m_prim
        self.snapshot_resets = snapshot_resets
        self.m_pred = m_pred            # predicate on the path relative to the Tds
        self.correlated = correlated or {}   # callee last-segment or qname -> 'some' | 'nonzero'
        self.edge_events = {}
        self.replace_table = replace_table or {}   # q -> reason: whole-Tds replacement argued safe
        self.replace_sites = []                    # (q, line, classified?)
        # q -> [(callee qname, 'err' | 'ok', reason)]: result edges of a call that cannot be taken
        self.infeasible = infeasible or {}
        self.cut = {}
        self._restoring = {}
        self.replace_is_m = replace_is_m
        # order-aware pairing: a B event counts only once M has happened on the path
        self.b_after_m = b_after_m
        self.summary1 = {}   # outcomes when the function is entered with M already set
        self.summary = {}   # (q, resource index) -> frozenset of (m,b)
        self.block_in = {}  # (q, ridx) -> {bb: set}
        self.trace = {}     # (q, ridx) -> {bb: [events]}

    # -- primitives
    def _bump_prim(self, body, al, term, r):
        """`AtomicU64::fetch_add(&self.generation, ..)` on the resource's Tds."""
        name = term.resolved or term.callee or ''
        if not name.endswith('::fetch_add'):
            return False
        if not term.args:
            return False
        t = al.operand_target(term.args[0])
        if t is None:
            return False
        tp = self.R.tds_path(r)
        if tp is None:
            return False
        root, fields, _ = t
        return root == r['root'] and fields == tp + ('generation',)

    def _storage_paths(self, r):
        tp = self.R.tds_path(r)
        if tp is None:
            return None
        return [tp + (f,) for f in self.m_fields]

    def _touches_storage(self, r, root, fields):
        if root != r['root']:
            return False
        tp = self.R.tds_path(r)
        if tp is None:
            rp = r['rootpath']
            if fields[:len(rp)] != rp:
                return False
            inside = r.get('inside', ())
            rel = tuple(inside) + tuple(fields[len(rp):])
            if not rel:
                return False
            if self.m_pred is not None:
                return self.m_pred(rel)
            return rel[0] in self.m_fields
        n = min(len(fields), len(tp))
        if fields[:n] != tp[:n]:
            return False
        if len(fields) <= len(tp):
            return True     # the whole Tds (or an enclosing struct) is overwritten
        rel = fields[len(tp):]
        if self.m_pred is not None:
            return self.m_pred(rel)
        return rel[0] in self.m_fields

    # -- transfer
    def _events(self, q, ridx):
        """Per block: ordered list of events ('m',), ('b',), ('call', callee q, callee ridx),
        ('snap',), ('restore',)."""
        body = self.prog.bodies[q]
        r = self.R.res[q][ridx]
        al = self.mod.aliases(q)
        ev = defaultdict(list)
        eev = {}
        self.edge_events[(q, ridx)] = eev
        tp = self.R.tds_path(r)
        for blk in body.blocks:
            if blk.cleanup:
                continue
            for s in blk.stmts:
                pre = self.stmt_events(q, r, body, al, s)
                if pre:
                    ev[blk.idx].extend(pre)
                root, fields, derefd = al.norm(s.place)
                if derefd and self._touches_storage(r, root, fields):
                    if (self.snapshot_resets and tp is not None and root == r['root'] and fields == tp
                            and s.kind == 'A' and self._from_snapshot(body, al, s.rv, r)):
                        ev[blk.idx].append(('restore', s.line))
                    elif (self.snapshot_resets and tp is not None and root == r['root']
                          and len(fields) < len(tp) and fields == tp[:len(fields)]
                          and s.kind == 'A' and self._from_snapshot(body, al, s.rv, r, whole=fields)):
                        ev[blk.idx].append(('restore', s.line))
                    elif (tp is not None and root == r['root'] and len(fields) <= len(tp)
                          and fields == tp[:len(fields)]):
                        # whole Tds (or an enclosing struct) replaced by something that is not a
                        # snapshot of itself
                        owner = body.root or q
                        site = (owner, s.line)
                        if owner in self.replace_table:
                            ev[blk.idx].append(('replace_ok', s.line, repr(s.place)))
                            if (owner, True) not in [(a, c) for a, _, c in self.replace_sites]:
                                self.replace_sites.append((owner, s.line, True))
                        else:
                            if self.replace_is_m:
                                ev[blk.idx].append(('m', s.line, 'whole replacement of ' + repr(s.place)))
                            if (owner, False) not in [(a, c) for a, _, c in self.replace_sites]:
                                self.replace_sites.append((owner, s.line, False))
                    else:
                        ev[blk.idx].append(('m', s.line, repr(s.place)))
                if s.kind == 'A' and s.rv.k == 'agg' and s.rv.raw.get('ak') == 'closure':
                    cq = s.rv.raw['def']
                    for cidx, cr in enumerate(self.R.res.get(cq, [])):
                        if self._closure_matches(q, r, al, s, cr):
                            cond = self._error_path_consumer(body, al, s) if self.snapshot_resets else None
                            if cond is not None and self.closure_restores(cq, cidx):
                                # `result.map_err(|e| { restore; e })`: runs only when the receiver is a failure
                                ev[blk.idx].append(('call_if_fail', cq, cidx, s.line, cond))
                            else:
                                ev[blk.idx].append(('call', cq, cidx, s.line))
                            if self.snapshot_resets and self._closure_snapshots(cq, cidx):
                                ev[blk.idx].append(('snap', s.line))
            ev[blk.idx].extend(self.extra_block_events(q, r, body, al, blk))
            t = blk.term
            if t.k == 'call':
                if self.b_prim(body, al, t, r):
                    ev[blk.idx].append(('b', t.line))
                    continue
                if self.m_prim is not None and self.m_prim(body, al, t, r):
                    ev[blk.idx].append(('m', t.line, t.resolved))
                    continue
                name = None
                for cand in (t.resolved, t.callee):
                    if cand in self.prog.bodies:
                        name = cand
                        break
                handled = False
                if name is not None and self.prog.bodies[name].kind != 'closure':
                    for i, o in enumerate(t.args):
                        tt = al.operand_target(o)
                        if tt is None or tt[0] != r['root']:
                            continue
                        for cidx, cr in enumerate(self.R.res.get(name, [])):
                            if cr['param'] != i + 1:
                                continue
                            # the callee's Tds must be the caller's Tds
                            ctp = self.R.tds_path(cr)
                            if tp is not None and ctp is not None and tt[1] + ctp == tp:
                                edges = self._correlated_edges(body, blk.idx, t)
                                if edges is None:
                                    ev[blk.idx].append((self.adjust_call(q, r, body, al, t, name, cidx), name, cidx, t.line))
                                else:
                                    ev[blk.idx].append(('call_b', name, cidx, t.line))
                                    for e_ in edges:
                                        eev.setdefault(e_, []).append(('call_m', name, cidx, t.line))
                                handled = True
                if self.snapshot_resets and tp is not None and self._is_clone_of_resource(body, al, t, r):
                    ev[blk.idx].append(('snap', t.line))
                if self.snapshot_resets and tp is not None and self._overwrites_snapshot(body, al, t, r):
                    ev[blk.idx].append(('unsnap', t.line))
                if not handled:
                    # MOD fallback: does the callee write storage through a pointer we pass?
                    for i, o in enumerate(t.args):
                        tt = al.operand_target(o)
                        if tt is None or tt[0] != r['root'] or not tt[2]:
                            continue
                        hit = False
                        for cp in self.mod.callee_mod(t, i, body):
                            if self._touches_storage(r, tt[0], tt[1] + cp):
                                hit = True
                                break
                        if hit:
                            edges = self._correlated_edges(body, blk.idx, t)
                            if edges is None:
                                ev[blk.idx].append(('m', t.line, t.resolved or t.callee))
                            else:
                                for e_ in edges:
                                    eev.setdefault(e_, []).append(('m', t.line, (t.resolved or t.callee) + ' [result-correlated]'))
                            break
                # destination written through pointer
                if t.dest is not None:
                    root, fields, derefd = al.norm(t.dest)
                    if derefd and self._touches_storage(r, root, fields):
                        ev[blk.idx].append(('m', t.line, repr(t.dest)))
        for e_, lst in self.extra_edge_events(q, r, body, al).items():
            eev.setdefault(e_, []).extend(lst)
        return ev

    def _correlated_edges(self, body, bb, t):
        """For a call whose mutation is correlated with its result (table `correlated`): the CFG
        edges on which the mutation is known to have happened; None when the call is not in the
        table or its result is not tested in a recognised way (then the event stays at the call)."""
        name = t.resolved or t.callee or ''
        kind = self.correlated.get(name)
        if kind is None:
            last = name.rsplit('::', 1)[-1]
            kind = self.correlated.get('*::' + last) if (t.callee_krate not in ('delaunay',)) else None
        if kind is None:
            return None
        if t.dest is None or not t.dest.is_local():
            return None
        if kind == 'some':
            cf = flow.call_flow(body, bb)
            if cf.split and not cf.escapes and not cf.lossy and not cf.forward_blocks and cf.ok_edges:
                return sorted(cf.ok_edges)
            return None
        if kind == 'nonzero':
            d = t.dest.local
            uses = flow._collect_uses(body)
            edges = []
            okay = True
            # follow copies of the count
            locs = {d}
            work = [d]
            tests = 0
            while work:
                l = work.pop()
                for (ubb, where, node, how) in uses.get(l, []):
                    if how == 'stmt':
                        rv = node.rv
                        if rv.k == 'use' and node.place.is_local() and node.place.local not in locs:
                            if node.place.local == 0:
                                continue
                            locs.add(node.place.local)
                            work.append(node.place.local)
                        elif rv.k == 'bin' and rv.raw['op'] in ('Eq', 'Ne', 'Gt', 'Lt') and node.place.is_local():
                            a, b_ = rv.ops
                            other = b_ if (a.place is not None and a.place.local == l) else a
                            if other.int_value() != 0:
                                continue
                            op = rv.raw['op']
                            # find the switch on this bool
                            c = node.place.local
                            for (sbb, _, snode, show) in uses.get(c, []):
                                if show == 'switch':
                                    listed = {v: tg for v, tg in snode.values}
                                    f_t = listed.get(0, snode.otherwise)
                                    t_t = snode.otherwise if 0 in listed else None
                                    if t_t is None:
                                        continue
                                    # Eq(count,0): true => zero ; Ne/Gt(count,0): true => nonzero
                                    if op == 'Eq':
                                        nz = f_t
                                    elif op in ('Ne', 'Gt'):
                                        nz = t_t
                                    else:
                                        continue
                                    edges.append((sbb, nz))
                                    tests += 1
                    elif how == 'switch':
                        listed = {v: tg for v, tg in node.values}
                        if 0 in listed:
                            edges.append((ubb, node.otherwise))
                            tests += 1
            if tests == 1 and edges:
                # the single test must dominate every later use of the resource: approximated by
                # requiring the test block to be reachable from the call without other branches
                # on the way being able to bypass it is left to the reader of the table entry.
                return edges
            return None
        return None

    ERR_COMBINATORS = ('map_err', 'or_else', 'inspect_err', 'unwrap_or_else', 'ok_or_else', 'is_err_and')

    def _error_path_consumer(self, body, al, s):
        """If the closure built by statement s is handed (only) to an error-path combinator of Result / Option
        (`map_err`, `or_else`, `inspect_err`, `unwrap_or_else`): the call blocks that produced the receiver (tuple,
        possibly empty).  None otherwise."""
        import valueflow
        if not s.place.is_local():
            return None
        cl = s.place.local
        uses = flow._collect_uses(body)
        consumers = []
        work = [cl]
        seen = set()
        while work:
            l = work.pop()
            if l in seen:
                continue
            seen.add(l)
            for (ubb, _, node, how) in uses.get(l, []):
                if how == 'stmt' and node.rv.k == 'use' and node.place.is_local():
                    work.append(node.place.local)
                elif how == 'callarg':
                    consumers.append((ubb, node))
                elif how == 'drop':
                    continue
                elif how == 'stmt':
                    return None
        if len(consumers) != 1:
            return None
        ubb, t = consumers[0]
        last = (t.callee or t.resolved or '').rsplit('::', 1)[-1]
        if last not in self.ERR_COMBINATORS or len(t.args) < 2 or t.args[0].place is None:
            return None
        origins = []
        for leaf in valueflow.sources(body, al, t.args[0].place.local):
            if leaf[0] == 'call' and (leaf[1].resolved or leaf[1].callee or '') in self.prog.bodies:
                origins.append(leaf[2])
        return tuple(sorted(set(origins)))

    def _closure_matches(self, q, r, al, s, cr):
        """Does closure resource cr (captured pointer) refer to the parent's resource r?"""
        name = cr['cap']
        fl = s.rv.raw.get('fields', [])
        if name not in fl:
            return False
        o = s.rv.ops[fl.index(name)]
        t = al.operand_target(o)
        if t is None or t[0] != r['root']:
            return False
        tp = self.R.tds_path(r)
        if tp is None:
            return cr.get('prefix') is None
        if cr.get('prefix') is None:
            return t[1][:len(tp)] == tp
        return t[1] + cr['prefix'] == tp

    def _closure_snapshots(self, cq, cidx):
        """Does closure cq clone the Tds of its captured resource cidx (`flag.then(|| tds.clone())`)?"""
        cb = self.prog.bodies.get(cq)
        if cb is None:
            return False
        cr = self.R.res[cq][cidx]
        if self.R.tds_path(cr) is None:
            return False
        cal = self.mod.aliases(cq)
        for _, t in cb.calls():
            if self._is_clone_of_resource(cb, cal, t, cr):
                return True
        return False

    def _closure_arg_snapshots(self, body, al, t, r):
        """A call such as `bool::then(flag, closure)` / `Option::map(x, closure)` whose closure
        argument clones the resource's Tds."""
        for o in t.args:
            if o.place is None or not o.place.is_local():
                continue
            d = body.single_def(o.place.local)
            if d is None or d[1] == 'term':
                continue
            rv = d[2].rv
            if rv.k == 'agg' and rv.raw.get('ak') == 'closure':
                cq = rv.raw['def']
                for cidx, cr in enumerate(self.R.res.get(cq, [])):
                    if cr.get('cap') is None:
                        continue
                    fl = rv.raw.get('fields', [])
                    if cr['cap'] not in fl:
                        continue
                    tt = al.operand_target(rv.ops[fl.index(cr['cap'])])
                    if tt is None or tt[0] != r['root']:
                        continue
                    if self._closure_snapshots(cq, cidx):
                        return True
        return False

    def _overwrites_snapshot(self, body, al, t, r):
        """The call receives a mutable pointer to a local that holds an entry snapshot and may write through it
        (a crate function whose MOD summary writes that parameter, or std::mem::swap / replace): the snapshot no
        longer holds the entry state, a later restore from it does not restore."""
        name = t.resolved or t.callee or ''
        ext_writer = name.startswith('std::mem::swap') or name.startswith('std::mem::replace') or \
            name.startswith('core::mem::swap') or name.startswith('core::mem::replace')
        local_callee = name in self.prog.bodies
        if not ext_writer and not local_callee:
            return False
        for i, o in enumerate(t.args):
            tt = al.operand_target(o)
            if tt is None or not tt[2] or tt[0] == r['root'] or 1 <= tt[0] <= body.nargs or tt[1]:
                continue
            lty = body.locals[tt[0]]
            if lty.startswith('{closure') or lty.startswith('&') or 'closure@' in lty:
                continue          # a closure environment or a reference is not a stored snapshot value
            if not self._local_is_snapshot(body, al, tt[0], r, set()):
                continue
            if ext_writer:
                return True
            try:
                if list(self.mod.callee_mod(t, i, body)):
                    return True
            except Exception:
                return True
        return False

    def _is_clone_of_resource(self, body, al, t, r):
        name = t.resolved or t.callee or ''
        if not (name.endswith('::clone') or name.endswith('Clone::clone')):
            return False
        if not t.args:
            return False
        tt = al.operand_target(t.args[0])
        if tt is None or tt[0] != r['root']:
            return False
        tp = self.R.tds_path(r)
        # clone of the Tds itself or of an enclosing struct (whole Triangulation / DT)
        return tt[1] == tp[:len(tt[1])]

    def _from_snapshot(self, body, al, rv, r, whole=None, _depth=0, _seen=None):
        """Is the assigned value (transitively) a clone of the resource's own Tds (or of the
        enclosing struct when `whole` is the path being replaced)?"""
        if rv.k not in ('use',):
            return False
        o = rv.ops[0]
        if o.place is None:
            return False
        return self._local_is_snapshot(body, al, o.place.local, r, set())

    def _local_is_snapshot(self, body, al, local, r, seen):
        if local in seen:
            return True
        seen.add(local)
        if 1 <= local <= body.nargs:
            # a `&Tds` snapshot parameter: accepted, the obligation moves to the callers
            head, _ = pointee_head(body.locals[local])
            return head in self.R.prefix_map and self.param_snapshot_ok(body, local, r)
        defs = body.defs.get(local, [])
        if not defs:
            return False
        any_real = False
        for (bb, idx, node) in defs:
            if idx == 'term':
                t = node
                name = t.resolved or t.callee or ''
                if self._is_clone_of_resource(body, al, t, r):
                    any_real = True
                    continue
                if self._closure_arg_snapshots(body, al, t, r):
                    any_real = True
                    continue
                if t.args and t.args[0].place is not None:
                    src = t.args[0].place
                    base = name.rsplit('::', 1)[-1]
                    if base in ('clone', 'take', 'unwrap', 'expect', 'unwrap_unchecked', 'branch', 'into',
                                'from', 'replace', 'as_ref', 'cloned', 'map', 'then', 'then_some', 'call_once',
                                'call_mut', 'call', 'deref'):
                        srcl = src.local
                        tt = al.ptr(srcl) if src.is_local() else None
                        if tt is not None and tt[0] != srcl:
                            srcl = tt[0]
                        if self._local_is_snapshot(body, al, srcl, r, seen):
                            any_real = True
                            continue
                return False
            s = node
            rv = s.rv
            if rv.k in ('use', 'deref_copy', 'ref', 'cast'):
                src = rv.place if rv.k in ('deref_copy', 'ref') else (rv.ops[0].place if rv.ops else None)
                if src is None:
                    return False
                if body.kind == 'closure' and src.local == 1:
                    # a value moved out of a capture: is the captured local a snapshot in the enclosing body?
                    if self._capture_is_snapshot(body, src, r):
                        any_real = True
                        continue
                    return False
                if self._local_is_snapshot(body, al, src.local, r, seen):
                    any_real = True
                    continue
                return False
            if rv.k == 'agg':
                if not rv.ops:
                    continue  # None / unit variant
                oks = [o for o in rv.ops if o.place is not None and
                       self._local_is_snapshot(body, al, o.place.local, r, seen)]
                if oks:
                    any_real = True
                    continue
                return False
            return False
        return any_real

    def _parent_resource(self, cbody, cr):
        """(parent body, parent alias info, parent resource) for closure resource cr, or None."""
        parent = self.prog.bodies.get(cbody.parent)
        if parent is None:
            return None
        pal = self.mod.aliases(parent.q)
        for blk in parent.blocks:
            for s_ in blk.stmts:
                if s_.kind == 'A' and s_.rv.k == 'agg' and s_.rv.raw.get('ak') == 'closure' and s_.rv.raw.get('def') == cbody.q:
                    for pr in self.R.res.get(parent.q, []):
                        if self._closure_matches(parent.q, pr, pal, s_, cr):
                            return parent, pal, pr
        return None

    def _capture_is_snapshot(self, cbody, place, cr):
        import valueflow
        caps = [p_[2:] for p_ in place.proj if isinstance(p_, str) and p_.startswith('.^')]
        if not caps:
            return False
        org = valueflow.capture_origin(self.prog, cbody, caps[0])
        pr = self._parent_resource(cbody, cr)
        if org is None or pr is None:
            return False
        parent, pal, pres = pr
        return self._local_is_snapshot(parent, pal, org[1], pres, set())

    def closure_restores(self, cq, cidx):
        """Does the trace of closure cq (for its resource cidx) contain a restore from a captured snapshot?"""
        key = (cq, cidx)
        if key not in self._restoring:
            if key not in self.trace:
                self.trace[key] = self._events(cq, cidx)
            self._restoring[key] = any(e[0] == 'restore' for evs in self.trace[key].values() for e in evs)
        return self._restoring[key]

    def cut_edges(self, q):
        if q in self.cut:
            return self.cut[q]
        body = self.prog.bodies[q]
        edges = set()
        owner = body.root or q
        for (callee, which, _reason) in self.infeasible.get(owner, []) + (self.infeasible.get(q, []) if q != owner else []):
            for bb, t in body.calls():
                if (t.resolved or t.callee) != callee:
                    continue
                cf = flow.call_flow(body, bb)
                for e_ in (cf.err_edges if which == 'err' else cf.ok_edges):
                    if self._edge_decided_only_by(body, e_, bb):
                        edges.add(e_)
            if body.kind == 'closure':
                edges |= self._captured_cut_edges(body, callee, which)
        self.cut[q] = edges
        return edges

    def _captured_cut_edges(self, cbody, callee, which):
        """The tabled call's result was moved into this closure (`snapshot` captured by `map_err(|e| ..)`) and is
        tested here: the same edge of a switch on the captured value is cut, provided the captured local is defined
        solely by the tabled call in the enclosing body."""
        import valueflow
        out = set()
        for blk in cbody.blocks:
            if blk.cleanup or blk.term.k != 'switch':
                continue
            d = blk.term.discr
            if d.place is None or not d.place.is_local():
                continue
            sd = cbody.single_def(d.place.local)
            if sd is None or sd[1] == 'term' or sd[2].rv.k != 'discr' or sd[2].rv.place is None or sd[2].rv.place.local != 1:
                continue
            proj = sd[2].rv.place.proj
            caps = [p_[2:] for p_ in proj if isinstance(p_, str) and p_.startswith('.^')]
            if len(caps) != 1 or len(proj) != 1:
                continue
            org = valueflow.capture_origin(self.prog, cbody, caps[0])
            if org is None:
                continue
            parent, pl = org
            # sole definition: the tabled call (through single-definition moves)
            l = pl
            ok = False
            for _ in range(6):
                defs = parent.defs.get(l, [])
                if len(defs) != 1:
                    break
                (dbb, idx, node) = defs[0]
                if idx == 'term':
                    ok = (node.resolved or node.callee) == callee
                    break
                if node.rv.k == 'use' and node.rv.ops and node.rv.ops[0].place is not None and node.rv.ops[0].place.is_local():
                    l = node.rv.ops[0].place.local
                    continue
                break
            if not ok:
                continue
            listed = {v: tg for v, tg in blk.term.values}
            # Option / Result: discriminant 0 = None / Ok, 1 = Some / Err; the table says 'err' for the None / Err side of
            # the call's result as flow.call_flow classifies it (Option: None = err)
            ty = cbody.locals[1]
            none_t = listed.get(0, blk.term.otherwise if 0 not in listed else None)
            some_t = listed.get(1, blk.term.otherwise if 1 not in listed else None)
            tgt = none_t if which == 'err' else some_t
            if tgt is not None:
                out.add((blk.idx, tgt))
        return out

    @staticmethod
    def _edge_decided_only_by(body, edge, call_bb):
        """The switch at the source of `edge` tests a value whose *only* definition is the result of the call in
        block `call_bb` (through single-definition moves).  An Option that also has another definition (a `None`
        initialiser assigned on a different path) can take the cut edge for that other reason: not infeasible."""
        t = body.blocks[edge[0]].term
        if t.k != 'switch' or t.discr.place is None or not t.discr.place.is_local():
            return True
        d = body.single_def(t.discr.place.local)
        if d is None or d[1] == 'term' or d[2].rv.k != 'discr' or d[2].rv.place is None:
            return True
        l = d[2].rv.place.local
        seen = set()
        while True:
            if l in seen:
                return True
            seen.add(l)
            defs = body.defs.get(l, [])
            if len(defs) > 1:
                return False          # e.g. `let mut snapshot = None; ... snapshot = flag.then(..)`
            if len(defs) != 1:
                return True
            (dbb, idx, node) = defs[0]
            if idx == 'term':
                return True           # the call itself or a combinator over its result
            if node.rv.k == 'use' and node.rv.ops and node.rv.ops[0].place is not None and node.rv.ops[0].place.is_local():
                l = node.rv.ops[0].place.local
                continue
            return True

    def param_snapshot_ok(self, body, local, r):
        """Hook: may pointer parameter `local` stand for a snapshot of resource r?"""
        return True

    def stmt_events(self, q, r, body, al, s):
        """Hook for subclasses: events of statement s that precede its own write event."""
        return None

    def extra_block_events(self, q, r, body, al, blk):
        """Hook for subclasses: additional events of a block (list)."""
        return []

    def extra_edge_events(self, q, r, body, al):
        """Hook for subclasses: {(src, dst): [events]}"""
        return {}

    def adjust_call(self, q, r, body, al, t, callee, cidx):
        """Hook: 'call' (use the callee summary as is) or 'call_nob' (ignore its B part)."""
        return 'call'

    def analyse(self, q, ridx, entry_m=0, entry_sv=1):
        body = self.prog.bodies[q]
        if (q, ridx) not in self.trace:
            self.trace[(q, ridx)] = self._events(q, ridx)
        ev = self.trace[(q, ridx)]
        start = frozenset({(entry_m, 0, entry_sv)})
        state_in = {0: set(start)}
        work = deque([0])
        out_states = set()
        while work:
            b = work.popleft()
            st = set(state_in[b])
            for e in ev.get(b, []):
                st = self._apply(st, e)
                if not st:
                    break
            if body.blocks[b].term.k == 'ret':
                out_states |= st
            if not st:
                continue
            eev = self.edge_events.get((q, ridx), {})
            cut = self.cut_edges(q)
            for s in body.succs(b):
                if (b, s) in cut:
                    continue
                st2 = st
                for e in eev.get((b, s), ()):
                    st2 = self._apply(set(st2), e)
                cur = state_in.setdefault(s, set())
                if not st2 <= cur:
                    cur |= st2
                    if s not in work:
                        work.append(s)
        if entry_m == 0 and entry_sv == 1:
            self.block_in[(q, ridx)] = state_in
        return frozenset((m, b) for (m, b, _) in out_states)

    def _apply(self, st, e):
        k = e[0]
        if k == 'm':
            return {(1, b, sv) for (m, b, sv) in st}
        if k == 'b':
            if self.b_after_m:
                return {(m, 1 if m else b, sv) for (m, b, sv) in st}
            return {(m, 1, sv) for (m, b, sv) in st}
        if k == 'replace_ok':
            return {(1, 1, sv) for (m, b, sv) in st}
        if k == 'snap':
            return {(m, b, sv & (1 if m == 0 else 0)) for (m, b, sv) in st}
        if k == 'restore':
            return {((0 if sv else 1), b, sv) for (m, b, sv) in st}
        if k == 'unsnap':
            return {(m, b, 0) for (m, b, sv) in st}
        if k == 'call_if_fail':
            # no result correlation in this engine: the closure may or may not have run
            return set(st) | self._apply(st, ('call',) + tuple(e[1:4]))
        if k == 'call' and self.prog.bodies[e[1]].kind == 'closure' and self.closure_restores(e[1], e[2]):
            # a closure that restores from a captured snapshot: run it on the caller's state
            out = set()
            for (m, b, sv) in st:
                for (m2, b2) in self.analyse(e[1], e[2], entry_m=m, entry_sv=sv):
                    out.add((m2, b | b2, sv))
            return out
        if k == 'call':
            summ = self.summary.get((e[1], e[2]), frozenset())
            if self.b_after_m:
                summ1 = self.summary1.get((e[1], e[2]), frozenset())
                return {(m | cm, b | cb, sv) for (m, b, sv) in st for (cm, cb) in (summ1 if m else summ)}
            return {(m | cm, b | cb, sv) for (m, b, sv) in st for (cm, cb) in summ}
        if k == 'call_nob':
            summ = self.summary.get((e[1], e[2]), frozenset())
            return {(m | cm, b, sv) for (m, b, sv) in st for (cm, cb) in summ}
        if k == 'call_b':
            summ = self.summary.get((e[1], e[2]), frozenset())
            return {(m, b | cb, sv) for (m, b, sv) in st for (cm, cb) in summ}
        if k == 'call_m':
            summ = self.summary.get((e[1], e[2]), frozenset())
            anym = any(cm for (cm, cb) in summ)
            return {(m | (1 if anym else 0), b, sv) for (m, b, sv) in st}
        return st

    def solve(self):
        keys = [(q, i) for q, rs in self.R.res.items() for i in range(len(rs))]
        for k in keys:
            self.summary[k] = frozenset()
        changed = True
        rounds = 0
        while changed and rounds < 40:
            changed = False
            rounds += 1
            for k in keys:
                new = self.analyse(*k)
                if new != self.summary[k]:
                    self.summary[k] = new | self.summary[k]
                    changed = True
                if self.b_after_m:
                    new1 = self.analyse(k[0], k[1], entry_m=1)
                    if new1 != self.summary1.get(k, frozenset()):
                        self.summary1[k] = new1 | self.summary1.get(k, frozenset())
                        changed = True
        self.rounds = rounds

    def witness_path(self, q, ridx):
        """A block path from entry to a return along which (m and not b) survives, with the
        events on it."""
        body = self.prog.bodies[q]
        ev = self.trace[(q, ridx)]
        # BFS over (block, state)
        start = (0, (0, 0, 1))
        prev = {start: None}
        dq = deque([start])
        goal = None
        while dq:
            node = dq.popleft()
            b, s = node
            sts = {s}
            for e in ev.get(b, []):
                sts = self._apply(sts, e)
            for s2 in sts:
                if body.blocks[b].term.k == 'ret' and s2[0] == 1 and s2[1] == 0:
                    goal = node
                    break
                eev = self.edge_events.get((q, ridx), {})
                cut = self.cut_edges(q)
                for nb in body.succs(b):
                    if (b, nb) in cut:
                        continue
                    s3s = {s2}
                    for e in eev.get((b, nb), ()):
                        s3s = self._apply(s3s, e)
                    for s3 in s3s:
                        nn = (nb, s3)
                        if nn not in prev:
                            prev[nn] = node
                            dq.append(nn)
            if goal:
                break
        if not goal:
            return None
        path = []
        n = goal
        while n is not None:
            path.append(n)
            n = prev[n]
        path.reverse()
        out = []
        for b, s in path:
            for e in ev.get(b, []):
                out.append({'bb': b, 'event': e[0], 'what': list(e[1:])})
        return {'blocks': [b for b, _ in path], 'events': out}


def blame_chain(eng, q, i, depth=0, seen=None):
    """From an obliged function down to the innermost body whose own events produce
    (m and not b): list of names, the last one annotated with the offending write."""
    seen = seen if seen is not None else set()
    if (q, i) in seen or depth > 12:
        return [q]
    seen.add((q, i))
    w = eng.witness_path(q, i)
    if not w:
        return [q]
    for e in w['events']:
        if e['event'] in ('call', 'call_m', 'call_nob'):
            cq, ci = e['what'][0], e['what'][1]
            if (1, 0) in eng.summary.get((cq, ci), ()):
                return [q] + blame_chain(eng, cq, ci, depth + 1, seen)
            if e['event'] == 'call_nob' and any(cm for (cm, cb) in eng.summary.get((cq, ci), ())):
                return [q + ' {passes no live index to %s}' % cq]
    ms = [e for e in w['events'] if e['event'] == 'm']
    if ms:
        return [q + ' {' + str(ms[0]['what'][-1]) + '}']
    return [q]
