"""C09 — duplicates rejected in every history (structural clauses).

 (a) PAIR-IDX   on every exported `&mut DelaunayTriangulation` operation: a vertex added to
                `tri.tds.vertices` is paired, on that path, with an update of the spatial index
                that answers the duplicate query (index.insert_vertex on the live index, or the
                index being dropped / replaced) — unless there is no index (None edge);
 (b) PAIR-REKEY a whole-Tds replacement that is not a snapshot restore invalidates every
                VertexKey: it must be paired with the index being cleared / dropped;
 (c) UUID       `vertices.insert` happens only on the Vacant arm of the uuid_to_vertex_key entry;
 (d) DUPGATE    in the transactional insert every insertion attempt is dominated by the `None`
                edge of the duplicate query of the same iteration;
 (e) RESOLVE    inside the duplicate query, the distance test on an index candidate is dominated
                by the `Some` edge of re-resolving the key in the Tds, and the early `None` return
                after an index query is taken only on the true edge of `used_index`.
Not decided: tolerance arithmetic, grid cell size vs tolerance, batch dedup policies."""
import flow
import pair
from pair import TDS, TRI, DT

EXPLANATION = (
    "Cache-coherence and gating clauses of C09. PAIR-IDX/PAIR-REKEY: interprocedural (m,b) outcome dataflow "
    "over MIR for every exported `&mut DelaunayTriangulation` operation; M = slot-map insert into "
    "Tds.vertices (PAIR-IDX) or a non-snapshot whole-Tds replacement (PAIR-REKEY); B = "
    "HashGridIndex::insert_vertex / clear on the live index, assignment to `spatial_index`, whole-receiver "
    "replacement, or the None edge of a test on the index option (no index to go stale). A callee's B is "
    "believed only when the call site hands it the live index. UUID, DUPGATE, RESOLVE are "
    "must-pass-through checks on the CFG with result-flow edges. The numerical tolerance is not decided.")

IDX_INSERT = 'core::collections::spatial_hash_grid::HashGridIndex::insert_vertex'
IDX_CLEAR = 'core::collections::spatial_hash_grid::HashGridIndex::clear'
IDX_TY = 'HashGridIndex'

INSERT_TX = 'core::triangulation::Triangulation::insert_transactional'
DUPQ = 'core::triangulation::Triangulation::duplicate_coordinates_error'
SAFETY = 'core::triangulation::Triangulation::try_insert_with_topology_safety_net'
GETV = 'core::triangulation_data_structure::Tds::get_vertex_by_key'
INSV = 'core::triangulation_data_structure::Tds::insert_vertex_with_mapping'

# result edges that cannot be taken (value correlation confirmed by reading)
INFEASIBLE = {
    INSERT_TX: [(GETV, 'err', 'the key was returned by the successful insertion a few lines earlier, so '
                              'get_vertex_by_key(vertex_key) is Some')],
}


class IdxEngine(pair.PairEngine):
    """(M, B) = (vertex added | Tds re-keyed, spatial index updated / dropped)."""

    def __init__(self, prog, mod, res, mode):
        self.mode = mode  # 'insert' or 'rekey'
        super().__init__(prog, mod, res, m_pred=lambda rel: False, b_prim=self._b, m_prim=self._m,
                         snapshot_resets=True, infeasible=INFEASIBLE, replace_is_m=True,
                         b_after_m=(mode == 'rekey'))
        self._idx_params = {}

    # -- index roots
    def idx_params(self, q):
        if q not in self._idx_params:
            b = self.prog.bodies[q]
            self._idx_params[q] = [i for i in range(1, b.nargs + 1) if IDX_TY in b.locals[i]]
        return self._idx_params[q]

    def idx_path(self, r):
        """Absolute path of `spatial_index` for a DelaunayTriangulation-level resource."""
        if r.get('prefix') == ('tri', 'tds'):
            return r.get('rootpath', ()) + ('spatial_index',)
        return None

    def is_live_index(self, q, r, body, target):
        if target is None:
            return False
        root, fields = target[0], target[1]
        if root in self.idx_params(q):
            return True
        ip = self.idx_path(r)
        if ip is not None and root == r['root'] and fields[:len(ip)] == ip:
            return True
        # closures: a captured index
        if body.kind == 'closure' and root == 1 and fields and fields[0].startswith('^') and \
                IDX_TY in ''.join(body.locals):
            cap = fields[0][1:]
            if 'index' in cap:
                return True
        return False

    # -- primitives
    def _m(self, body, al, t, r):
        if self.mode != 'insert':
            return False
        name = t.resolved or t.callee or ''
        if name.rsplit('::', 1)[-1] not in ('insert', 'insert_with_key'):
            return False
        if name in self.prog.bodies or not t.args:
            return False
        tt = al.operand_target(t.args[0])
        tp = self.R.tds_path(r)
        if tt is None or tp is None:
            return False
        return tt[0] == r['root'] and tt[1] == tp + ('vertices',)

    def _b(self, body, al, t, r):
        name = t.resolved or t.callee or ''
        if (self.mode == 'insert' and name == IDX_INSERT) or name == IDX_CLEAR:
            if t.args and self.is_live_index(body.q, r, body, al.operand_target(t.args[0])):
                return True
        return False

    def extra_block_events(self, q, r, body, al, blk):
        out = []
        ip = self.idx_path(r)
        for s in blk.stmts:
            root, fields, derefd = al.norm(s.place)
            if not derefd or root != r['root']:
                continue
            if ip is not None and (fields == ip or (len(fields) < len(ip) and fields == ip[:len(fields)]
                                                    and len(fields) >= len(r.get('rootpath', ())))):
                # `self.spatial_index = ..` or `*self = ..`
                if len(fields) < len(ip) and self.R.tds_path(r) is not None:
                    # whole receiver replaced: index and Tds arrive together
                    out.append(('b', s.line))
                elif fields == ip:
                    out.append(('b', s.line))
        return out

    def extra_edge_events(self, q, r, body, al):
        """None edge of a discriminant test on an index-rooted Option: nothing to keep coherent."""
        out = {}
        if self.mode == 'rekey':
            return out   # only a real clear / drop counts after a re-key
        uses = flow._collect_uses(body)
        for blk in body.blocks:
            if blk.cleanup:
                continue
            for s in blk.stmts:
                if s.kind != 'A' or s.rv.k != 'discr' or not s.place.is_local():
                    continue
                pl = s.rv.place
                tgt = None
                if pl.is_local() or flow.fields_of(pl.proj) == ():
                    tgt = al.target(pl.local)
                    if tgt is None and 1 <= pl.local <= body.nargs and pl.local in self.idx_params(q):
                        tgt = (pl.local, (), True)
                if tgt is None:
                    root, fields, _ = al.norm(pl)
                    tgt = (root, fields, True)
                if not self.is_live_index(q, r, body, tgt):
                    continue
                if 'Option' not in body.locals[pl.local] and not (pl.proj):
                    continue
                d = s.place.local
                for (sbb, _, snode, how) in uses.get(d, []):
                    if how != 'switch':
                        continue
                    listed = {v: tg for v, tg in snode.values}
                    none_t = listed.get(0)
                    if none_t is None and 1 in listed:
                        none_t = snode.otherwise
                    if none_t is not None:
                        out.setdefault((sbb, none_t), []).append(('b', s.line, 'no index (None)'))
        return out

    def callee_sees_index(self, callee, cidx):
        if self.idx_params(callee):
            return True
        cr = self.R.res[callee][cidx]
        return self.idx_path(cr) is not None

    def holds_index(self, q, ridx):
        return bool(self.idx_params(q)) or self.idx_path(self.R.res[q][ridx]) is not None

    def adjust_call(self, q, r, body, al, t, callee, cidx):
        ips = self.idx_params(callee)
        if not ips:
            return 'call' if self.callee_sees_index(callee, cidx) else 'call_nob'
        for pi in ips:
            if pi - 1 < len(t.args):
                o = t.args[pi - 1]
                tt = al.operand_target(o)
                if self.is_live_index(q, r, body, tt):
                    return 'call'
        return 'call_nob'


def _rekey_local(ctx, cfg, prog, mod, res):
    """REKEY: a function that holds the live index and calls something that may replace the whole
    Tds (re-issuing every VertexKey) without seeing the index must be able to clear / drop the
    index after that call."""
    eng = IdxEngine(prog, mod, res, 'rekey')
    eng.solve()
    n = 0
    for (q, ridx), ev in sorted(eng.trace.items()):
        if not eng.holds_index(q, ridx):
            continue
        body = prog.bodies[q]
        for bb, evs in ev.items():
            for e in evs:
                if e[0] not in ('call', 'call_nob'):
                    continue
                callee, cidx = e[1], e[2]
                if prog.bodies[callee].kind == 'closure':
                    continue
                if eng.callee_sees_index(callee, cidx) and e[0] == 'call':
                    continue
                if not any(cm for (cm, cb) in eng.summary.get((callee, cidx), ())):
                    continue
                n += 1
                # is a B event (clear / drop / whole replacement) reachable after the call?
                after = flow.reach_edges(body, body.succs(bb), avoid_edges=eng.cut_edges(q))
                found = None
                eev = eng.edge_events.get((q, ridx), {})
                for ab in after:
                    for e2 in ev.get(ab, []):
                        if e2[0] == 'b':
                            found = ('line', e2[1])
                        elif e2[0] == 'call' and any(cb for (cm, cb) in eng.summary1.get((e2[1], e2[2]), ())):
                            found = ('via', e2[1])
                ok = found is not None
                t = body.blocks[bb].term
                ctx.ob('PAIR-REKEY', '%s|%s' % (q, callee), cfg, ok,
                       '%s holds the spatial index and calls %s, which may replace the whole Tds (every VertexKey is '
                       're-issued) without seeing the index; an index clear/drop after the call is %s' % (
                           q, callee, 'reachable (%s %s)' % found if ok else 'NOT reachable: stale keys resolve to '
                           'other vertices and the duplicate query misses present vertices'),
                       site='%s:%d' % (body.file, e[-1] if isinstance(e[-1], int) else body.line))
                if cfg == ctx.cfgs[0]:
                    ctx.sample({'rule': 'PAIR-REKEY', 'holder': q, 'rekeying_callee': callee, 'clear_after': bool(ok)})
    ctx.floor('PAIR-REKEY: index holders calling a re-keying callee', 1, n, cfg)


def dt_entries(prog, res):
    out = []
    for q, b in prog.bodies.items():
        if b.kind == 'closure' or not b.exported:
            continue
        for i, r in enumerate(res.res.get(q, [])):
            if not r['mut'] or r['param'] is None:
                continue
            head, _ = pair.pointee_head(b.locals[r['param']])
            if head == DT:
                out.append((q, i))
    return sorted(out)


REKEY_TABLE = {
    # function that consumes the re-keying callee's result : reason + side condition
}


TDS_VERTICES = 'core::triangulation_data_structure::Tds::vertices'
FILTERING = {'filter', 'filter_map', 'take', 'skip', 'step_by', 'take_while', 'skip_while', 'nth', 'last', 'rev_take'}


BIT_EXTRACTORS = ('to_bits', 'integer_decode', 'to_ne_bytes', 'to_le_bytes', 'to_be_bytes', 'transmute', 'transmute_copy')


SCALAR_TESTS = ('eq', 'ne', 'lt', 'le', 'gt', 'ge', 'partial_cmp', 'total_cmp', 'is_zero', 'is_sign_negative',
                'is_sign_positive', 'abs', 'is_nan', 'is_finite', 'signum', 'ordered_eq', 'ordered_equals')


def _is_scalar_ty(b, o):
    """operand of float type or of a bare generic parameter type (the coordinate scalar), behind any references"""
    if o.place is None:
        return str((o.const or {}).get('ty', '')) in ('f64', 'f32')
    ty = b.locals[o.place.local].replace('&mut ', '').replace('&', '').strip()
    if o.place.proj:
        return False
    return ty in ('f64', 'f32') or (ty.isidentifier() and len(ty) <= 2 and ty[0].isupper())


def _floatkey(ctx, cfg, prog):
    """FLOATKEY (lint-type, negative): equality and hashing of the crate's key types go through the ordered-float
    helpers; comparing or hashing the *bit pattern* of a scalar distinguishes -0.0 from +0.0, and the grid files a
    vertex under floor(-0.0 / cell) = -0.0 while every probe key is base + offset = +0.0 - the vertex becomes
    invisible to the duplicate query.  No PartialEq::eq / Hash::hash body of the crate calls a bit extractor."""
    ctx.rule('FLOATKEY', 'no Eq / Hash implementation of the crate compares or hashes the bit pattern of a scalar')
    n = 0
    bad = []
    for q, b in sorted(prog.bodies.items()):
        if '::tests::' in q or not b.file.startswith('src/'):
            continue
        root = b.root or q
        if not ((' as std::cmp::PartialEq' in root and root.endswith('::eq')) or root.endswith(' as std::hash::Hash>::hash')):
            continue
        if b.kind != 'closure':
            n += 1
        ext = []
        normalised = False
        for bb, t in b.calls():
            last = (t.callee or t.resolved or '').rsplit('::', 1)[-1]
            if last in BIT_EXTRACTORS:
                ext.append((root, last, b.file, t.line))
            elif last in SCALAR_TESTS and any(_is_scalar_ty(b, o) for o in t.args):
                # an implementation that first tests the scalar itself (== 0, is_sign_negative, abs ...) may be
                # normalising -0.0 / NaN before it extracts bits: not judged here (no alarm)
                normalised = True
        for blk in b.blocks:
            for s_ in blk.stmts:
                if s_.kind == 'A' and s_.rv.k == 'bin' and s_.rv.raw.get('op') in ('Eq', 'Ne', 'Lt', 'Le', 'Gt', 'Ge', 'Add') and \
                        any(_is_scalar_ty(b, o) for o in s_.rv.ops):
                    normalised = True
        if not normalised:
            bad.extend(ext)
    for (root, last, file, line) in bad:
        ctx.ob('FLOATKEY', '%s|%s' % (root, last), cfg, False,
               '%s() in an Eq / Hash implementation: the bit pattern tells -0.0 from +0.0 (and NaN payloads apart), so equal '
               'coordinates can get different keys' % last, site='%s:%d' % (file, line))
    ctx.ob('FLOATKEY', 'scan', cfg, True, 'Eq / Hash implementations scanned: %d; bit-pattern extractors found: %d' % (n, len(bad)))
    ctx.floor('Eq / Hash implementations in the crate', 25, n, cfg)
    grid = [q for q in prog.bodies if 'spatial_hash_grid::GridKey as std::' in q]
    ctx.floor('GridKey Eq / Hash implementations', 2, len([q for q in grid if prog.bodies[q].kind != 'closure']), cfg)


DT_ADT = 'core::delaunay_triangulation::DelaunayTriangulation'
TDS_EMPTY = 'core::triangulation_data_structure::Tds::empty'


def _none_only(b, local, depth=0):
    """Every definition of `local` is Option::None (or a copy of such a local)."""
    defs = b.defs.get(local, [])
    if not defs or depth > 4:
        return False
    for (bb, idx, node) in defs:
        if idx == 'term':
            return False
        rv = node.rv
        if rv.k == 'agg' and rv.raw.get('ak') == 'adt' and rv.raw.get('adt') == 'std::option::Option' and rv.raw.get('variant') == 'None':
            continue
        if rv.k == 'use' and rv.ops and rv.ops[0].place is not None and rv.ops[0].place.is_local() and \
                _none_only(b, rv.ops[0].place.local, depth + 1):
            continue
        return False
    return True


def _ctoridx(ctx, cfg, prog, mod):
    """CTORIDX: a DelaunayTriangulation value that is *given* a Tds (constructors, from_tds, rebuild candidates) starts
    with no duplicate index (`None` = "seed lazily from the Tds") unless the Tds is the empty one: an index that is
    `Some` but was not filled from that Tds answers "no duplicate" for every stored vertex.
      (a) every `DelaunayTriangulation { .. }` aggregate has `spatial_index: None`, or its Tds comes from `Tds::empty()`;
      (b) a by-value DelaunayTriangulation local whose `tri` / `tri.tds` is assigned afterwards gets
          `spatial_index = None` on every path from that assignment to a return."""
    import valueflow
    ctx.rule('CTORIDX', 'a triangulation value handed a Tds starts without a duplicate index unless the Tds is empty')
    n_agg = 0
    for q, b in sorted(prog.bodies.items()):
        if '::tests::' in q or not b.file.startswith('src/'):
            continue
        al = None
        for blk in b.blocks:
            if blk.cleanup:
                continue
            for s_ in blk.stmts:
                if s_.kind != 'A':
                    continue
                rv = s_.rv
                if rv.k == 'agg' and rv.raw.get('ak') == 'adt' and rv.raw.get('adt') == DT_ADT:
                    n_agg += 1
                    fields = rv.raw.get('fields', [])
                    ops = dict(zip(fields, rv.ops))
                    io, to = ops.get('spatial_index'), ops.get('tri')
                    none = io is not None and io.place is not None and io.place.is_local() and _none_only(b, io.place.local)
                    empty = together = False
                    if not none and to is not None and to.place is not None:
                        al = al or mod.aliases(q)
                        empty = any(x[0] == 'call' and (x[1].resolved or x[1].callee) == TDS_EMPTY
                                    for x in valueflow.deep_sources(prog, mod, b, to.place.local, depth=3))
                        if not empty and io is not None and io.place is not None:
                            # both copied from the same existing triangulation (Clone): index and Tds arrive together
                            ti = {x[1][0] for x in valueflow.sources(b, al, to.place.local) if x[0] == 'place' and x[1][1][:1] == ('tri',)}
                            ii = {x[1][0] for x in valueflow.sources(b, al, io.place.local) if x[0] == 'place' and x[1][1][:1] == ('spatial_index',)}
                            together = bool(ti & ii)
                    ctx.ob('CTORIDX', '%s|aggregate' % (b.root or q), cfg, none or empty or together,
                           'spatial_index is None' if none else 'index present, Tds comes from Tds::empty()' if empty else
                           'index and Tds are copied from the same triangulation' if together else
                           'the value is built with a duplicate index that is not None around a Tds that is not Tds::empty(): the '
                           'index does not know the stored vertices, so near-duplicates of them are accepted',
                           site='%s:%d' % (b.file, s_.line))
                    continue
                # (b) assignment into a by-value DelaunayTriangulation local
                pl = s_.place
                if pl.is_local() or not b.locals[pl.local].startswith(DT_ADT + '<'):
                    continue
                fields = [p_ for p_ in pl.proj if isinstance(p_, str) and p_.startswith('.')]
                names = [f[1:] for f in fields]
                if any(p_ == '*' for p_ in pl.proj) or not names or names[0] != 'tri' or (len(names) > 1 and names[1] != 'tds') or len(names) > 2:
                    continue
                loc = pl.local
                # blocks that reset the index of the same local to None
                resets = set()
                for blk2 in b.blocks:
                    for s2 in blk2.stmts:
                        if s2.kind == 'A' and s2.place.local == loc and not s2.place.is_local() and \
                                [p_ for p_ in s2.place.proj] == ['.spatial_index'] and s2.rv.k in ('agg', 'use'):
                            if (s2.rv.k == 'agg' and s2.rv.raw.get('variant') == 'None') or \
                                    (s2.rv.k == 'use' and s2.rv.ops and s2.rv.ops[0].place is not None and
                                     s2.rv.ops[0].place.is_local() and _none_only(b, s2.rv.ops[0].place.local)):
                                resets.add(blk2.idx)
                reach = flow.reach_edges(b, b.succs(blk.idx), avoid_blocks=resets) | ({blk.idx} - resets)
                rets = [x for x in reach if b.blocks[x].term.k == 'ret']
                ok = not rets or blk.idx in resets
                ctx.ob('CTORIDX', '%s|assign' % (b.root or q), cfg, ok,
                       'a Tds is assigned into a DelaunayTriangulation value; %s' % (
                           'its duplicate index is reset to None on every path to the return' if ok else
                           'its duplicate index is not reset to None afterwards: an index inherited from the value\'s previous (empty) '
                           'state does not know the vertices of the new Tds, so near-duplicates of them are accepted'),
                       site='%s:%d' % (b.file, s_.line))
    ctx.floor('DelaunayTriangulation aggregates', 4, n_agg, cfg)


IDX_NEW = 'core::collections::spatial_hash_grid::HashGridIndex::new'
DUP_TOL = 'core::delaunay_triangulation::default_duplicate_tolerance'


def _idxcell(ctx, cfg, prog, mod):
    """IDXCELL: the duplicate query visits only the 3^D grid cells around a point, so an index that answers it must have
    cells at least as wide as the duplicate tolerance.  Every construction of a VertexKey-keyed HashGridIndex (the
    insertion-time index; the usize-keyed grid of batch de-duplication has its own tolerance) takes a cell size whose
    backward slice - through closure captures and into crate callees - contains `default_duplicate_tolerance()`; the
    constructor is never passed on as a function value (`opt.map(HashGridIndex::new)` hides the cell size).
    Necessary condition only: that the tolerance is a lower bound of the cell size is arithmetic."""
    import valueflow
    ctx.rule('IDXCELL', 'the cell size of every insertion-time duplicate index depends on the duplicate tolerance')
    n = 0
    for q, b in sorted(prog.bodies.items()):
        if '::tests::' in q or not b.file.startswith('src/'):
            continue
        for bb, t in b.calls():
            name = t.resolved or t.callee or ''
            for o in t.args:
                if o.kind == 'k' and isinstance(o.const, dict) and str(o.const.get('fn', '')).split('<')[0].endswith('HashGridIndex::new'):
                    n += 1
                    ctx.ob('IDXCELL', '%s|fn-item' % (b.root or q), cfg, False,
                           'HashGridIndex::new is passed on as a function value: the cell size of the index it builds is whatever '
                           'the caller supplies (an epsilon-dedup grid finer than the duplicate tolerance makes near-duplicates '
                           'invisible to the 3^D neighbourhood query)', site='%s:%d' % (b.file, t.line))
            if name != IDX_NEW or not t.args or t.dest is None or not t.dest.is_local():
                continue
            ty = b.locals[t.dest.local].replace(' ', '')
            if ty.endswith(',usize>'):
                continue                      # batch de-duplication grid (keyed by input position)
            n += 1
            a = t.args[0]
            ok = False
            if a.place is not None:
                leaves = valueflow.deep_sources_up(prog, mod, b, a.place.local, depth=3)
                ok = any(x[0] == 'call' and ((x[1].resolved or x[1].callee) == DUP_TOL or
                                             (x[1].callee or x[1].resolved or '').rsplit('::', 1)[-1] == 'default_tolerance')
                         for x in leaves) or \
                    any(x[0] == 'const' and ('default_tolerance' in str(x[1]) or 'default_duplicate_tolerance' in str(x[1]) or
                                             '1.0E-10' in str(x[1]) or '1e-10' in str(x[1]).lower()) for x in leaves)
            ctx.ob('IDXCELL', '%s|new' % (b.root or q), cfg, ok,
                   'cell size %s' % ('depends on the duplicate tolerance' if ok else
                                     'does not depend on the duplicate tolerance (default_duplicate_tolerance() / default_tolerance()): cells narrower than the tolerance make a '
                                     'near-duplicate in the next-but-one cell invisible to the duplicate query'),
                   site='%s:%d' % (b.file, t.line))
    ctx.floor('constructions of an insertion-time duplicate index', 1, n, cfg)


def _seedall(ctx, cfg, prog, mod):
    """Bulk (re)seeding sites: a body that calls both Tds::vertices and HashGridIndex::insert_vertex in one loop."""
    import loops
    n = 0
    for q, b in sorted(prog.bodies.items()):
        if '::tests::' in q or not b.file.startswith('src/'):
            continue
        vcalls = [bb for bb, t in b.calls() if (t.resolved or t.callee) == TDS_VERTICES]
        icalls = [bb for bb, t in b.calls() if (t.resolved or t.callee) == IDX_INSERT]
        if not vcalls or not icalls:
            continue
        lps = loops.natural_loops(b)
        for h, nodes in sorted(lps.items()):
            ins = {x for x in icalls if x in nodes}
            if not ins:
                continue
            # does the loop iterate Tds::vertices? (the iterator advanced in the loop derives from that call)
            import valueflow
            al = mod.aliases(q)
            nexts = [(bb, t) for bb, t in b.calls() if bb in nodes and (t.callee or t.resolved or '').rsplit('::', 1)[-1] == 'next']
            from_vertices, adaptors = False, set()
            for bb, t in nexts:
                if not t.args or t.args[0].place is None:
                    continue
                tt = al.operand_target(t.args[0])
                for rl in [t.args[0].place.local] + ([tt[0]] if tt is not None else []):
                    for leaf in valueflow.sources(b, al, rl):
                        if leaf[0] == 'call':
                            nm = (leaf[1].resolved or leaf[1].callee or '')
                            if nm == TDS_VERTICES:
                                from_vertices = True
                            if nm.rsplit('::', 1)[-1] in FILTERING:
                                adaptors.add(nm.rsplit('::', 1)[-1])
            if not from_vertices:
                continue
            n += 1
            # a cycle through the header that avoids every insert_vertex call?
            seen = set()
            work = [(h, s_) for s_ in b.succs(h)]
            free = False
            while work:
                (a_, x) = work.pop()
                if x not in nodes or x in ins:
                    continue
                if x == h:
                    free = True
                    break
                if x in seen:
                    continue
                seen.add(x)
                for s_ in b.succs(x):
                    work.append((x, s_))
            ok = not free and not adaptors
            ctx.ob('SEEDALL', '%s|loop%d' % (b.root or q, sum(1 for o in ctx.obligations if o['rule'] == 'SEEDALL' and o['cfg'] == cfg and o['key'].startswith('SEEDALL|%s|' % (b.root or q)))),
                   cfg, ok,
                   'loop over Tds::vertices files every vertex' if ok else
                   'the loop over Tds::vertices %s: a stored vertex can be missing from the rebuilt index, so a later insertion at '
                   'its position is not recognised as a duplicate' % (
                       'can complete an iteration without insert_vertex' if free else 'is narrowed by %s' % sorted(adaptors)),
                   site='%s:%d' % (b.file, b.blocks[h].term.line))
    ctx.floor('index (re)seeding loops over Tds::vertices', 2, n, cfg)


def run(ctx):
    ctx.rule('PAIR-IDX', 'no exported &mut DelaunayTriangulation operation returns with a vertex added to storage '
                         'and the spatial index neither updated nor dropped (when an index exists)')
    ctx.rule('PAIR-REKEY', 'no exported &mut DelaunayTriangulation operation returns with the Tds replaced (all '
                           'VertexKeys re-issued) and the spatial index neither cleared nor dropped')
    ctx.rule('UUID', 'slot-map insertion into Tds.vertices only on the Vacant arm of the uuid_to_vertex_key entry')
    ctx.rule('DUPGATE', 'every insertion attempt in insert_transactional is dominated by the None edge of the '
                        'duplicate query of the same loop iteration')
    ctx.rule('RESOLVE', 'index candidates are re-resolved in the Tds before the distance test; early None only '
                        'when the index was really used')
    ctx.rule('SEEDALL', 'wherever the index is (re)built from the Tds, every stored vertex is filed: the loop over Tds::vertices '
                        'passes insert_vertex on every iteration and no filtering adaptor is applied')
    for cfg in ctx.cfgs:
        prog = ctx.prog(cfg)
        mod = ctx.mod(cfg)
        _seedall(ctx, cfg, prog, mod)
        _floatkey(ctx, cfg, prog)
        _ctoridx(ctx, cfg, prog, mod)
        _idxcell(ctx, cfg, prog, mod)
        res = pair.Resources(prog, mod)
        E = dt_entries(prog, res)
        ctx.floor('exported &mut DelaunayTriangulation operations', 14, len(E), cfg)
        _rekey_local(ctx, cfg, prog, mod, res)
        for mode, rule in (('insert', 'PAIR-IDX'),):
            eng = IdxEngine(prog, mod, res, mode)
            eng.solve()
            nm = 0
            for (q, i) in E:
                summ = eng.summary[(q, i)]
                b = prog.bodies[q]
                nontrivial = any(m for (m, _) in summ)
                nm += 1 if nontrivial else 0
                ok = (1, 0) not in summ
                if mode == 'rekey' and (1, 1) in summ:
                    # may-pairing: a re-key of the index exists after the replacement; whether it
                    # is taken exactly when the replacement happened is a value condition
                    ok = True
                detail = 'outcomes (%s, index coherent) at return: %s' % (
                    'vertex added' if mode == 'insert' else 'Tds re-keyed, index cleared/dropped afterwards', sorted(summ))
                if not ok:
                    chain = pair.blame_chain(eng, q, i)
                    detail += '; offending path: ' + ' -> '.join(chain)
                ctx.ob(rule, q, cfg, ok, detail, nontrivial=nontrivial, site='%s:%d' % (b.file, b.line))
                if nontrivial and cfg == ctx.cfgs[0]:
                    ctx.sample({'rule': rule, 'function': q, 'outcomes': sorted(summ)})
            ctx.floor('%s: operations that can %s' % (rule, 'add a vertex' if mode == 'insert' else 're-key the Tds'),
                      2, nm, cfg)
        _coordsrc(ctx, cfg, prog, mod)
        _uuid(ctx, cfg, prog, mod)
        _dupgate(ctx, cfg, prog, mod)
        _resolve(ctx, cfg, prog, mod)
    return ctx.finish(EXPLANATION)


STORAGE_READS = {'core::triangulation_data_structure::Tds::get_vertex_by_key',
                 'core::triangulation_data_structure::Tds::vertices',
                 'core::triangulation::Triangulation::vertices',
                 'core::delaunay_triangulation::DelaunayTriangulation::vertices'}


def _coordsrc(ctx, cfg, prog, mod):
    """COORDSRC: the coordinates filed in the index for a VertexKey come from the vertex *stored*
    under that key (after perturbation retries the stored point differs from the requested one)."""
    import valueflow
    ctx.rule('COORDSRC', 'index.insert_vertex(key, coords): coords are read back from storage, not taken from the request')
    n = 0
    for q, b in sorted(prog.bodies.items()):
        for bb, t in b.calls():
            if (t.resolved or t.callee) != IDX_INSERT or len(t.args) < 3:
                continue
            kty = b.locals[t.args[1].place.local] if t.args[1].place is not None else ''
            if 'VertexKey' not in kty:
                continue      # other index instantiations (batch dedup keys positions)
            n += 1
            o = t.args[2]
            leaves = valueflow.deep_sources(prog, mod, b, o.place.local) if o.place is not None else []
            ok = any(l[0] == 'call' and (l[1].resolved or l[1].callee) in STORAGE_READS for l in leaves)
            ctx.ob('COORDSRC', b.root or q, cfg, ok,
                   'coordinates filed for the key %s' % ('are read from the stored vertex' if ok else
                   'do NOT come from the stored vertex: after a perturbation retry the entry is filed under the requested '
                   'position and the duplicate query at the real position finds no candidate'),
                   site='%s:%d' % (b.file, t.line))
    ctx.floor('index.insert_vertex(VertexKey, ..) sites', 3, n, cfg)


def _uuid(ctx, cfg, prog, mod):
    """Every external `insert` on a path ending in Tds.vertices: the block must be dominated by the
    Vacant edge of a switch on the result of `entry()` on uuid_to_vertex_key."""
    n = 0
    for q, b in prog.bodies.items():
        al = mod.aliases(q)
        for bb, t in b.calls():
            name = t.resolved or t.callee or ''
            if name in prog.bodies or name.rsplit('::', 1)[-1] not in ('insert', 'insert_with_key') or not t.args:
                continue
            tt = al.operand_target(t.args[0])
            if tt is None or not (1 <= tt[0] <= b.nargs):
                continue
            head, _ = pair.pointee_head(b.locals[tt[0]])
            pref = pair.STORAGE_PREFIX.get(head)
            if pref is None or tt[1] != pref + ('vertices',):
                continue
            n += 1
            # find entry() on uuid_to_vertex_key and its Vacant edge
            ok = False
            why = 'no `entry` call on uuid_to_vertex_key whose Vacant edge dominates the insertion'
            for ebb, et in b.calls():
                en = et.resolved or et.callee or ''
                if en.rsplit('::', 1)[-1] != 'entry' or not et.args:
                    continue
                et_t = al.operand_target(et.args[0])
                if et_t is None or et_t[1] != pref + ('uuid_to_vertex_key',):
                    continue
                # switch on discriminant of the Entry: Occupied = 0, Vacant = 1
                edges = _variant_edges(b, et.dest.local, 1)
                if not edges:
                    continue
                reach = flow.reach_edges(b, [0], avoid_edges=edges)
                if bb not in reach:
                    ok = True
                    why = 'dominated by the Vacant edge of uuid_to_vertex_key.entry(uuid)'
            ctx.ob('UUID', q, cfg, ok, why, site='%s:%d' % (b.file, t.line))
    ctx.floor('slot-map insert sites on Tds.vertices', 1, n, cfg)


def _variant_edges(body, local, variant_idx):
    """Edges of switches on discriminant(local) leading to `variant_idx`."""
    edges = set()
    uses = flow._collect_uses(body)
    for (ubb, _, node, how) in uses.get(local, []):
        if how == 'stmt' and node.rv.k == 'discr' and node.place.is_local():
            d = node.place.local
            for (sbb, _, snode, show) in uses.get(d, []):
                if show == 'switch':
                    listed = {v: tg for v, tg in snode.values}
                    if variant_idx in listed:
                        edges.add((sbb, listed[variant_idx]))
                    elif len(listed) == 1 and body.blocks[snode.otherwise].term.k != 'unreachable':
                        edges.add((sbb, snode.otherwise))
    return edges


def _dupgate(ctx, cfg, prog, mod):
    b = ctx.anchor(cfg, INSERT_TX)
    if b is None:
        return
    dup_calls = [bb for bb, t in b.calls() if (t.resolved or t.callee) == DUPQ]
    ins_calls = [bb for bb, t in b.calls() if (t.resolved or t.callee) == SAFETY]
    ctx.floor('duplicate query calls in insert_transactional', 1, len(dup_calls), cfg)
    ctx.floor('insertion attempt calls in insert_transactional', 1, len(ins_calls), cfg)
    none_edges = set()
    for bb in dup_calls:
        cf = flow.call_flow(b, bb)
        # duplicate_coordinates_error returns Option<InsertionError>: Some = duplicate (failure
        # for our purpose), None = clear to proceed
        none_edges |= cf.err_edges
        if not cf.split:
            ctx.ob('DUPGATE', INSERT_TX + '|unchecked', cfg, False,
                   'result of the duplicate query is not tested', site='%s:%d' % (b.file, b.blocks[bb].term.line))
    for ibb in ins_calls:
        # from every point that can start an iteration (entry, and any back-edge target), the
        # attempt must not be reachable without crossing a None edge of the duplicate query;
        # since the only way to reach the attempt again is around the loop, cutting the None
        # edges must make it unreachable from entry, and also from the attempt's own successors.
        reach0 = flow.reach_edges(b, [0], avoid_edges=none_edges)
        again = flow.reach_edges(b, b.succs(ibb), avoid_edges=none_edges)
        ok = ibb not in reach0 and ibb not in again
        ctx.ob('DUPGATE', INSERT_TX, cfg, ok,
               'attempt %s the None edge of duplicate_coordinates_error (from entry: %s, around the retry loop: %s)' % (
                   'is dominated by' if ok else 'can be reached without', ibb not in reach0, ibb not in again),
               site='%s:%d' % (b.file, b.blocks[ibb].term.line))
    # the duplicate (Some) edge must lead to a Skipped outcome without any storage mutation
    res = mod
    some_edges = set()
    for bb in dup_calls:
        some_edges |= flow.call_flow(b, bb).ok_edges
    if some_edges:
        region = flow.reach_edges(b, [d for (_, d) in some_edges], avoid_blocks=())
        muts = [bb for bb, t in b.calls() if bb in region and (t.resolved or t.callee) == SAFETY]
        # blocks reachable from the Some edge before leaving through a return: the attempt must not
        # be reachable without first passing a new duplicate query (i.e. only around the loop)
        direct = flow.reach_edges(b, [d for (_, d) in some_edges], avoid_blocks=set(dup_calls))
        ok = not any(ibb in direct for ibb in ins_calls)
        ctx.ob('DUPGATE', INSERT_TX + '|dup-edge', cfg, ok,
               'the duplicate (Some) edge %s reach an insertion attempt without a fresh duplicate query' % (
                   'does not' if ok else 'can'), site='%s:%d' % (b.file, b.line))


def _resolve(ctx, cfg, prog, mod):
    b = ctx.anchor(cfg, DUPQ)
    if b is None:
        return
    # closure(s) of the duplicate query that receive index candidates: the candidate visitor
    kids = [prog.bodies[c] for c in prog.children.get(DUPQ, []) if c in prog.bodies]
    visitor = None
    for k in kids:
        if any((t.resolved or t.callee) == GETV for _, t in k.calls()):
            visitor = k
    if visitor is None:
        ctx.ob('RESOLVE', DUPQ + '|visitor', cfg, False,
               'no candidate visitor closure re-resolving keys with Tds::get_vertex_by_key found')
        return
    # in the visitor: every float comparison `Lt(dist, tol)` must be dominated by the Some edge
    some_edges = set()
    for bb, t in visitor.calls():
        if (t.resolved or t.callee) == GETV:
            cf = flow.call_flow(visitor, bb)
            some_edges |= cf.ok_edges
    cmp_blocks = []
    for blk in visitor.blocks:
        if blk.cleanup:
            continue
        for s in blk.stmts:
            if s.kind == 'A' and s.rv.k == 'bin' and s.rv.raw['op'] in ('Lt', 'Le') and \
                    'bool' == visitor.locals[s.place.local] and _is_scalar_cmp(visitor, s):
                cmp_blocks.append(blk.idx)
        t = blk.term
        if t.k == 'call' and (t.callee or '').endswith('PartialOrd::lt'):
            cmp_blocks.append(blk.idx)
    reach = flow.reach_edges(visitor, [0], avoid_edges=some_edges)
    ok = bool(some_edges) and bool(cmp_blocks) and not any(cb in reach for cb in cmp_blocks)
    ctx.ob('RESOLVE', visitor.q, cfg, ok,
           'distance test blocks %s; Some edges of get_vertex_by_key %s; test %s dominated by re-resolution' % (
               cmp_blocks, sorted(some_edges), 'is' if ok else 'is NOT'),
           site='%s:%d' % (visitor.file, visitor.line))
    # early `None` return after the index query only on the true edge of used_index
    al = mod.aliases(DUPQ)
    idx_calls = [bb for bb, t in b.calls()
                 if (t.resolved or t.callee or '').endswith('HashGridIndex::for_each_candidate_vertex_key')]
    ctx.floor('index query calls in duplicate_coordinates_error', 1, len(idx_calls), cfg)
    scan_calls = [bb for bb, t in b.calls()
                  if (t.resolved or t.callee) == 'core::triangulation_data_structure::Tds::vertices']
    ctx.floor('linear-scan fallback in duplicate_coordinates_error', 1, len(scan_calls), cfg)
    for ibb in idx_calls:
        t = b.blocks[ibb].term
        used = t.dest.local
        # edges where used_index is true
        true_edges = set()
        false_edges = set()
        uses = flow._collect_uses(b)
        locs = {used}
        work = [used]
        while work:
            l = work.pop()
            for (ubb, _, node, how) in uses.get(l, []):
                if how == 'stmt' and node.rv.k == 'use' and node.place.is_local() and node.place.local not in locs:
                    locs.add(node.place.local)
                    work.append(node.place.local)
                elif how == 'switch':
                    listed = {v: tg for v, tg in node.values}
                    if 0 in listed:
                        false_edges.add((ubb, listed[0]))
                        true_edges.add((ubb, node.otherwise))
        # None-returning blocks (assign _0 = Option::None) reachable from the index query without
        # passing the linear scan must lie behind a true edge of used_index
        none_rets = [e['bb'] for e in flow.exit_assignments(b) if e['cls'] == 'err']
        reach = flow.reach_edges(b, b.succs(ibb), avoid_edges=true_edges, avoid_blocks=set(scan_calls))
        bad = [nb for nb in none_rets if nb in reach]
        ok = bool(true_edges) and not bad
        ctx.ob('RESOLVE', DUPQ + '|used_index', cfg, ok,
               '`None` (no duplicate) after the grid query %s require used_index == true (or the linear scan)' % (
                   'does' if ok else 'does NOT'), site='%s:%d' % (b.file, t.line))


def _is_scalar_cmp(body, s):
    for o in s.rv.ops:
        if o.place is not None:
            ty = body.locals[o.place.local]
            if 'Scalar' in ty or ty in ('f64', 'f32'):
                return True
    return False
