"""Shared intraprocedural analyses: access-path normalisation, result-flow (success / failure
edges of a fallible call), and the interprocedural MOD summary (which access paths under a
`&mut` parameter a function may write)."""
from collections import defaultdict, deque

from facts import Place

# ----------------------------------------------------------------------------------------------
# access paths


def fields_of(proj):
    """Field-name part of a projection (derefs and downcasts dropped, index kept as '[]')."""
    out = []
    for p in proj:
        if p == '*' or p.startswith('@') or p == '?':
            continue
        if p.startswith('['):
            out.append('[]')
        elif p.startswith('.'):
            out.append(p[1:])
    return tuple(out)


HANDOUT = {
    # external methods that take `&mut` and only hand out a reference / cursor into the pointee;
    # the mutation, if any, happens through what they return (which is tracked as derived)
    'entry', 'get_mut', 'iter_mut', 'values_mut', 'get_disjoint_mut', 'get_many_mut', 'index_mut',
    'as_mut', 'deref_mut', 'as_mut_slice', 'first_mut', 'last_mut', 'borrow_mut', 'as_deref_mut',
    'get_unchecked_mut', 'split_at_mut', 'chunks_mut', 'into_mut', 'peek_mut', 'by_ref',
    'as_mut_ptr', 'get_or_insert_with#no',
}


# external methods that write through their `&mut` argument even though they return a reference
MUTATING_RETURNING = {
    'or_insert', 'or_insert_with', 'or_insert_with_key', 'or_default', 'insert', 'insert_entry',
    'get_or_insert', 'get_or_insert_with', 'get_or_insert_default', 'push_mut', 'and_modify',
    'insert_mut', 'replace', 'take', 'swap', 'remove', 'pop', 'drain', 'retain', 'clear',
    'truncate', 'extend', 'append', 'push', 'sort', 'sort_by', 'sort_unstable', 'dedup', 'fill',
    'reverse', 'rotate_left', 'rotate_right', 'resize', 'set', 'store', 'fetch_add',
}


# hand-outs that reach *inside an element* of the collection they are called on
ELEMENT_HANDOUT = {'get_mut', 'iter_mut', 'values_mut', 'get_disjoint_mut', 'get_many_mut', 'index_mut',
                   'first_mut', 'last_mut', 'get_unchecked_mut', 'get', 'iter', 'values', 'index',
                   'first', 'last', 'get_unchecked', 'entry', 'chunks_mut', 'split_at_mut', 'into_iter', 'drain'}


def is_handout(name, dest_ty=None):
    """External callee that only hands out (or passes along) a reference into its `&mut`
    argument: recognised by name, or by returning something that carries a mutable reference
    or a lifetime (the write, if any, then happens through that carrier, which is tracked)."""
    if not name:
        return False
    last = name.rsplit('::', 1)[-1]
    if last in MUTATING_RETURNING:
        return False
    if last in HANDOUT:
        return True
    if dest_ty is not None and ('&mut' in dest_ty or "'" in dest_ty):
        return True
    return False


class Aliases:
    """Resolves MIR places to (root local, field path, went-through-a-deref) by following
    single-definition pointer temporaries (`_5 = &mut (*_1).tds`, `_6 = move _5`, deref copies,
    pointer casts) and *carriers*: values that contain a reference derived from a pointer
    argument of the call that produced them (`Option<&mut Cell>`, `VacantEntry<'_,..>`,
    `IterMut<'_>`), which inherit target and mutability from that argument."""

    def __init__(self, body, ret_paths=None):
        self.body = body
        self._t = {}
        self._busy = set()
        # callee qname -> (param index, fields): where a returned reference points, relative to
        # the pointee of that parameter (local callees only)
        self.ret_paths = ret_paths if ret_paths is not None else {}

    def _is_ptr_ty(self, local):
        t = self.body.locals[local]
        return t.startswith('&') or t.startswith('*mut') or t.startswith('*const')

    def _is_carrier_ty(self, local):
        t = self.body.locals[local]
        return '&' in t or "'" in t or '*mut' in t or '*const' in t

    def _ty_mut(self, local):
        """True / False when the type alone decides mutability, None when inherited."""
        t = self.body.locals[local]
        if t.startswith('&mut') or t.startswith('*mut'):
            return True
        if t.startswith('&') or t.startswith('*const'):
            return False
        if '&mut' in t:
            return True
        return None

    def target(self, local):
        """(root, fields, mutable) for a pointer or carrier local, else None."""
        if local in self._t:
            return self._t[local]
        if local in self._busy:
            return None
        self._busy.add(local)
        res = None
        try:
            body = self.body
            if 1 <= local <= body.nargs:
                if self._is_ptr_ty(local):
                    res = (local, (), bool(self._ty_mut(local)))
                elif self._is_carrier_ty(local) and not self.body.locals[local].startswith('{closure'):
                    # `Option<&mut T>` / `Iter<'_, T>` parameter: points into its own referent
                    tm = self._ty_mut(local)
                    res = (local, (), True if tm is None else bool(tm))
            elif self._is_carrier_ty(local):
                d = body.single_def(local)
                if d is not None:
                    _, idx, node = d
                    if idx == 'term':
                        res = self._from_call(node)
                    else:
                        res = self._from_stmt(local, node)
                if res is not None:
                    tm = self._ty_mut(local)
                    if tm is not None and self._is_ptr_ty(local):
                        res = (res[0], res[1], tm and res[2] if not tm else res[2])
                        if tm is False:
                            res = (res[0], res[1], False)
        finally:
            self._busy.discard(local)
        self._t[local] = res
        return res

    def _from_call(self, t):
        name = t.resolved if t.resolved in self.ret_paths else (t.callee if t.callee in self.ret_paths else None)
        if name is not None:
            rp = self.ret_paths[name]
            if rp is None:
                return None
            pi, fields = rp
            if pi - 1 < len(t.args):
                o = t.args[pi - 1]
                if o.place is not None and o.place.is_local():
                    tt = self.target(o.place.local)
                    if tt is not None:
                        return (tt[0], tt[1] + fields, tt[2])
            return None
        last = (t.resolved or t.callee or '').rsplit('::', 1)[-1]
        for o in t.args:
            if o.place is None or not o.place.is_local():
                continue
            tt = self.target(o.place.local)
            if tt is not None:
                if last in ELEMENT_HANDOUT and (not tt[1] or tt[1][-1] != '[]'):
                    return (tt[0], tt[1] + ('[]',), tt[2])
                return tt
        return None

    def return_path(self):
        """(param, fields) the returned reference/carrier points into, or None."""
        b = self.body
        if '&' not in b.locals[0] and "'" not in b.locals[0]:
            return None
        found = []
        for (bb, idx, node) in b.defs.get(0, []):
            if idx == 'term':
                tt = self._from_call(node)
            else:
                tt = self._from_stmt(0, node)
            if tt is None:
                continue
            found.append(tt)
        found = [f for f in found if 1 <= f[0] <= b.nargs]
        if not found:
            return None
        root = found[0][0]
        if any(f[0] != root for f in found):
            return None
        # common prefix of the field paths
        pref = list(found[0][1])
        for f in found[1:]:
            n = 0
            while n < len(pref) and n < len(f[1]) and pref[n] == f[1][n]:
                n += 1
            pref = pref[:n]
        return (root, tuple(pref))

    def _from_stmt(self, local, s):
        rv = s.rv
        if rv.k in ('ref', 'raw'):
            r = self.norm(rv.place)
            root, fields, derefd = r
            if not derefd and not (1 <= root <= self.body.nargs):
                # borrow of a local: if that local is itself a carrier, inherit
                base = self.target(root) if self._is_carrier_ty(root) and not self._is_ptr_ty(root) else None
                if base is not None:
                    return (base[0], base[1], base[2] and bool(rv.raw.get('m')))
                return (root, fields, bool(rv.raw.get('m')))
            m = bool(rv.raw.get('m'))
            if derefd and rv.place.proj and rv.place.proj[0] == '*':
                base = self.target(rv.place.local)
                if base is not None:
                    m = m and base[2]
            return (root, fields, m)
        if rv.k in ('use', 'cast', 'deref_copy'):
            src = rv.place if rv.k == 'deref_copy' else (
                rv.ops[0].place if rv.ops and rv.ops[0].place is not None else None)
            if src is None:
                return None
            through = self._through_aggregate(src)
            if through is not None:
                return through
            if src.is_local():
                return self.target(src.local)
            # a pointer stored in a field of something: (*param).field of reference type
            if self._is_ptr_ty(local):
                root, fields, derefd = self.norm(Place([src.local, list(src.proj) + ['*']]))
                base = self.target(src.local)
                if base is not None and not derefd:
                    return base
                m = self._ty_mut(local)
                if base is not None:
                    return (root, fields, bool(m) and base[2])
                return (root, fields, bool(m))
            # payload of a carrier: (_x@Some).0
            return self.target(src.local)
        if rv.k == 'agg':
            for o in rv.ops:
                if o.place is not None and o.place.is_local():
                    tt = self.target(o.place.local)
                    if tt is not None:
                        return tt
        return None

    def _through_aggregate(self, src):
        """`_14 = move _16.0` where `_16 = (move _17, move _18)`: the pointer stored in the
        aggregate's field."""
        if len(src.proj) != 1 or not src.proj[0].startswith('.'):
            return None
        d = self.body.single_def(src.local)
        if d is None or d[1] == 'term':
            return None
        rv = d[2].rv
        if rv.k != 'agg' or rv.raw.get('ak') not in ('tuple', 'adt'):
            return None
        fname = src.proj[0][1:]
        idx = None
        if rv.raw.get('ak') == 'tuple':
            if fname.isdigit():
                idx = int(fname)
        else:
            fl = rv.raw.get('fields', [])
            if fname in fl:
                idx = fl.index(fname)
        if idx is None or idx >= len(rv.ops):
            return None
        o = rv.ops[idx]
        if o.place is None or not o.place.is_local():
            return None
        return self.target(o.place.local)

    def ptr(self, local):
        t = self.target(local)
        if t is None:
            return None
        return (t[0], t[1])

    def is_mut_ptr(self, local):
        t = self.target(local)
        return bool(t and t[2])

    def norm(self, place):
        """(root local, field tuple, derefd)"""
        local = place.local
        proj = list(place.proj)
        if proj and proj[0] == '*':
            t = self.target(local)
            if t is not None:
                return (t[0], t[1] + fields_of(proj[1:]), True)
        derefd = '*' in proj
        if derefd and not (1 <= local <= self.body.nargs):
            # deref below a carrier payload: ((_x@Some).0).* ...
            t = self.target(local)
            if t is not None:
                return (t[0], t[1], True)
        return (local, fields_of(proj), derefd)

    def operand_target(self, op):
        """For a pointer- or carrier-valued operand: (root, fields, mutable), else None."""
        if op.place is None:
            return None
        pl = op.place
        if pl.is_local():
            return self.target(pl.local)
        return None


def path_overlaps(p, q):
    """True if access paths p and q (field tuples) denote overlapping memory (one is a prefix
    of the other)."""
    n = min(len(p), len(q))
    return p[:n] == q[:n]


# ----------------------------------------------------------------------------------------------
# result flow

_SAME = {
    'std::result::Result::map_err', 'std::result::Result::map', 'std::result::Result::inspect',
    'std::result::Result::inspect_err', 'std::option::Option::ok_or', 'std::option::Option::ok_or_else',
    'std::result::Result::as_ref', 'std::result::Result::as_mut', 'std::option::Option::as_ref',
    'std::option::Option::as_mut', 'std::option::Option::copied', 'std::option::Option::cloned',
    'std::result::Result::copied', 'std::result::Result::cloned', 'std::option::Option::map',
    'std::option::Option::inspect', 'std::result::Result::ok', 'std::option::Option::as_deref',
    'std::option::Option::as_deref_mut', 'std::option::Option::take',
    'std::result::Result::and_then', 'std::option::Option::and_then', 'std::option::Option::filter',
    'std::result::Result::map_or_else#never',
}
_BOOL_POS = {'std::result::Result::is_ok', 'std::option::Option::is_some'}
_BOOL_NEG = {'std::result::Result::is_err', 'std::option::Option::is_none'}
_PANIC_ON_FAIL = {'std::result::Result::unwrap', 'std::result::Result::expect',
                  'std::option::Option::unwrap', 'std::option::Option::expect'}
_LOSSY = {'std::result::Result::unwrap_or', 'std::result::Result::unwrap_or_default',
          'std::result::Result::unwrap_or_else', 'std::option::Option::unwrap_or',
          'std::option::Option::unwrap_or_default', 'std::option::Option::unwrap_or_else',
          'std::result::Result::is_ok_and', 'std::result::Result::is_err_and',
          'std::option::Option::is_some_and', 'std::option::Option::is_none_or',
          'std::result::Result::map_or', 'std::result::Result::map_or_else',
          'std::option::Option::map_or', 'std::option::Option::map_or_else',
          'std::result::Result::or_else', 'std::result::Result::unwrap_or_else',
          'std::result::Result::err', 'std::option::Option::or', 'std::option::Option::or_else',
          'std::option::Option::xor', 'std::option::Option::zip', 'std::option::Option::unzip',
          'std::option::Option::flatten', 'std::result::Result::flatten', 'std::result::Result::or'}
_TRY_BRANCH = '<std::result::Result as std::ops::Try>::branch'
_TRY_BRANCH_OPT = '<std::option::Option as std::ops::Try>::branch'
_FROM_RESIDUAL = ('<std::result::Result as std::ops::FromResidual<std::result::Result>>::from_residual',
                  '<std::option::Option as std::ops::FromResidual<std::option::Option>>::from_residual')


def type_kind(ty):
    if ty.startswith('std::result::Result<'):
        return 'result'
    if ty.startswith('std::option::Option<'):
        return 'option'
    if ty.startswith('std::ops::ControlFlow<'):
        return 'cf'
    if ty == 'bool':
        return 'bool'
    return None


class CallFlow:
    """What happens to the value returned by one call."""

    def __init__(self, bb):
        self.bb = bb
        self.ok_edges = set()   # (src, dst) CFG edges taken only when the call succeeded
        self.err_edges = set()  # ... only when it failed
        self.forward_blocks = set()  # blocks in which the (mapped) value is written to _0
        self.forward_swapped = False
        self.escapes = []       # (bb, description) uses the analysis does not follow
        self.lossy = []         # (bb, callee) consumers that swallow the failure
        self.dropped = False    # never examined at all
        self.split = False

    @property
    def checked(self):
        return self.split or bool(self.forward_blocks)


def call_flow(body, bb):
    """Follow the destination of the call terminating block `bb`."""
    term = body.blocks[bb].term
    cf = CallFlow(bb)
    if term.dest is None or not term.dest.is_local():
        cf.escapes.append((bb, 'non-local destination'))
        return cf
    d = term.dest.local
    if d == 0:
        cf.forward_blocks.add(bb)
        return cf
    kind = type_kind(body.locals[d])
    if kind is None:
        cf.escapes.append((bb, 'untracked type ' + body.locals[d]))
        return cf
    if term.target is None:
        return cf
    # tracked: local -> (kind, positive) where positive=True means "truthy/Ok/Some/Continue = success"
    tracked = {d: (kind, True)}
    refs = {}     # ref local -> tracked local
    discrs = {}   # discr local -> tracked local
    work = deque([d])
    seen_use = False
    uses = _collect_uses(body)
    while work:
        l = work.popleft()
        k, pos = tracked[l]
        for (ubb, where, node, how) in uses.get(l, []):
            seen_use = True
            if how == 'switch':
                cf.split = True
                _switch_edges(body, ubb, node, k, pos, cf)
            elif how == 'stmt':
                s = node
                rv = s.rv
                if rv.k in ('use',) and s.place.is_local():
                    tl = s.place.local
                    if tl == 0:
                        cf.forward_blocks.add(ubb)
                        if not pos:
                            cf.forward_swapped = True
                    elif tl not in tracked:
                        tracked[tl] = (k, pos)
                        work.append(tl)
                elif rv.k == 'use':
                    cf.escapes.append((ubb, 'stored into %r' % s.place))
                elif rv.k == 'ref' and s.place.is_local():
                    if rv.place.is_local():
                        refs[s.place.local] = l
                        if s.place.local not in tracked:
                            tracked[s.place.local] = (k, pos)
                            work.append(s.place.local)
                    # a borrow of a payload field (e.g. &(_x@Ok.0)) is not a use of the flow
                elif rv.k == 'discr':
                    if rv.place.local == l and fields_of(rv.place.proj) == ():
                        discrs[s.place.local] = l
                        tracked[s.place.local] = ('discr:' + k, pos)
                        work.append(s.place.local)
                elif rv.k == 'un' and rv.raw['op'] == 'Not' and k == 'bool' and s.place.is_local():
                    tracked[s.place.local] = ('bool', not pos)
                    work.append(s.place.local)
                elif rv.k == 'deref_copy' and s.place.is_local():
                    tracked[s.place.local] = (k, pos)
                    work.append(s.place.local)
                elif rv.k == 'agg':
                    cf.escapes.append((ubb, 'aggregated into %s' % rv.raw.get('ak')))
                elif rv.k in ('bin',):
                    cf.escapes.append((ubb, 'compared'))
                else:
                    # payload projection reads (x = (_d@Ok).0) are recorded as uses of the
                    # place, not of the flow; ignore
                    pass
            elif how == 'callarg':
                t = node
                callee = t.resolved or ''
                callee_g = t.callee or ''
                names = {callee, callee_g}
                if names & {_TRY_BRANCH, _TRY_BRANCH_OPT}:
                    if t.dest.is_local():
                        tracked[t.dest.local] = ('cf', pos)
                        work.append(t.dest.local)
                elif names & _BOOL_POS:
                    if t.dest.is_local() and t.dest.local == 0:
                        cf.forward_blocks.add(ubb)
                    else:
                        tracked[t.dest.local] = ('bool', pos)
                        work.append(t.dest.local)
                elif names & _BOOL_NEG:
                    if t.dest.is_local() and t.dest.local == 0:
                        cf.forward_blocks.add(ubb)
                        cf.forward_swapped = True
                    else:
                        tracked[t.dest.local] = ('bool', not pos)
                        work.append(t.dest.local)
                elif names & _PANIC_ON_FAIL:
                    cf.split = True
                    if t.target is not None:
                        (cf.ok_edges if pos else cf.err_edges).add((ubb, t.target))
                elif names & _LOSSY:
                    cf.lossy.append((ubb, callee))
                elif names & _SAME:
                    if t.dest.is_local():
                        nk = type_kind(body.locals[t.dest.local]) or k
                        if t.dest.local == 0:
                            cf.forward_blocks.add(ubb)
                            if not pos:
                                cf.forward_swapped = True
                        else:
                            tracked[t.dest.local] = (nk, pos)
                            work.append(t.dest.local)
                elif names & set(_FROM_RESIDUAL):
                    # residual of a Try::branch: always the failure side; nothing to follow
                    pass
                else:
                    cf.escapes.append((ubb, 'passed to ' + (callee or 'indirect call')))
            elif how == 'drop':
                pass
    if not seen_use:
        cf.dropped = True
    elif not cf.split and not cf.forward_blocks and not cf.escapes and not cf.lossy:
        cf.dropped = True
    return cf


def _collect_uses(body):
    """local -> list of (bb, position, node, how) for whole-local operand uses."""
    if getattr(body, '_uses', None) is not None:
        return body._uses
    uses = defaultdict(list)
    for blk in body.blocks:
        if blk.cleanup:
            continue
        for i, s in enumerate(blk.stmts):
            if s.kind != 'A':
                continue
            rv = s.rv
            for o in rv.ops:
                if o.place is not None and o.place.is_local():
                    uses[o.place.local].append((blk.idx, i, s, 'stmt'))
            if rv.place is not None:
                if rv.k in ('ref', 'raw', 'deref_copy'):
                    if rv.place.is_local():
                        uses[rv.place.local].append((blk.idx, i, s, 'stmt'))
                    elif fields_of(rv.place.proj) == () and rv.k in ('ref', 'deref_copy'):
                        # &(*_x): reborrow through a tracked reference
                        uses[rv.place.local].append((blk.idx, i, s, 'stmt'))
                elif rv.k == 'discr':
                    if fields_of(rv.place.proj) == ():
                        uses[rv.place.local].append((blk.idx, i, s, 'stmt'))
        t = blk.term
        if t.k == 'switch' and t.discr.place is not None and t.discr.place.is_local():
            uses[t.discr.place.local].append((blk.idx, 'term', t, 'switch'))
        elif t.k == 'call':
            for o in t.args:
                if o.place is not None and o.place.is_local():
                    uses[o.place.local].append((blk.idx, 'term', t, 'callarg'))
        elif t.k == 'drop' and t.place.is_local():
            uses[t.place.local].append((blk.idx, 'term', t, 'drop'))
    body._uses = uses
    return uses


def _switch_edges(body, bb, term, kind, pos, cf):
    if kind.startswith('discr:'):
        base = kind[6:]
    else:
        base = kind
    # which discriminant value means success
    if base == 'result':
        succ_val = 0
    elif base == 'option':
        succ_val = 1
    elif base == 'cf':
        succ_val = 0
    elif base == 'bool':
        succ_val = 1
    else:
        return
    listed = {v: t for v, t in term.values}
    fail_val = 1 - succ_val
    if not pos:
        succ_val, fail_val = fail_val, succ_val
    other = term.otherwise
    other_live = body.blocks[other].term.k != 'unreachable'

    def tgt(v):
        if v in listed:
            return listed[v]
        if other_live:
            return other
        return None

    st, ft = tgt(succ_val), tgt(fail_val)
    if st is not None and st != ft:
        cf.ok_edges.add((bb, st))
    if ft is not None and st != ft:
        cf.err_edges.add((bb, ft))


def all_call_flows(body):
    if getattr(body, '_cflows', None) is None:
        body._cflows = {bb: call_flow(body, bb) for bb, _ in body.calls()}
    return body._cflows


# ----------------------------------------------------------------------------------------------
# edge-aware reachability


def reach_edges(body, starts, avoid_edges=(), avoid_blocks=()):
    """Blocks reachable from `starts` without traversing any edge in avoid_edges or entering any
    block in avoid_blocks."""
    avoid_edges = set(avoid_edges)
    avoid_blocks = set(avoid_blocks)
    seen = set()
    dq = deque()
    for s in starts:
        if s not in avoid_blocks and s not in seen:
            seen.add(s)
            dq.append(s)
    while dq:
        b = dq.popleft()
        for s in body.succs(b):
            if (b, s) in avoid_edges or s in avoid_blocks or s in seen:
                continue
            seen.add(s)
            dq.append(s)
    return seen


def reach_edges_cp(body, starts, avoid_edges=(), avoid_blocks=(), limit=200000):
    """Like reach_edges, but with constant propagation of bool locals that are assigned literal
    `true` / `false` (and their negations / copies): a switch on such a local follows only the
    edge that matches the value known on that path.  This removes the classic false path
    `let need = if c { ..; true } else { false }; if need { check()? }`."""
    avoid_edges = set(avoid_edges)
    avoid_blocks = set(avoid_blocks)
    bool_locals = {i for i, t in enumerate(body.locals) if t == 'bool'}
    seen = set()
    reached = set()
    dq = deque()
    for s in starts:
        if s not in avoid_blocks:
            node = (s, frozenset())
            seen.add(node)
            dq.append(node)
    n = 0
    while dq:
        n += 1
        if n > limit:
            # give up on precision, fall back to the plain over-approximation
            return reach_edges(body, starts, avoid_edges, avoid_blocks)
        b, env = dq.popleft()
        reached.add(b)
        envd = dict(env)
        blk = body.blocks[b]
        for st in blk.stmts:
            if st.kind != 'A' or not st.place.is_local():
                if st.kind == 'A' and st.place.local in envd:
                    envd.pop(st.place.local, None)
                continue
            l = st.place.local
            if l not in bool_locals:
                continue
            rv = st.rv
            val = None
            if rv.k == 'use' and rv.ops:
                o = rv.ops[0]
                if o.kind == 'k' and o.const.get('v') in ('true', 'false'):
                    val = o.const['v'] == 'true'
                elif o.place is not None and o.place.is_local() and o.place.local in envd:
                    val = envd[o.place.local]
            elif rv.k == 'un' and rv.raw['op'] == 'Not' and rv.ops and rv.ops[0].place is not None and \
                    rv.ops[0].place.is_local() and rv.ops[0].place.local in envd:
                val = not envd[rv.ops[0].place.local]
            if val is None:
                envd.pop(l, None)
            else:
                envd[l] = val
        t = blk.term
        if t.k == 'call' and t.dest is not None and t.dest.is_local():
            envd.pop(t.dest.local, None)
        succs = body.succs(b)
        if t.k == 'switch' and t.discr.place is not None and t.discr.place.is_local() and t.discr.place.local in envd:
            v = 1 if envd[t.discr.place.local] else 0
            listed = {val_: tg for val_, tg in t.values}
            succs = [listed[v]] if v in listed else [t.otherwise]
            succs = [x for x in succs if not body.blocks[x].cleanup]
        # keep only facts about locals that are still live-ish: cap the environment
        env2 = frozenset(sorted(envd.items())[:12])
        for s in succs:
            if (b, s) in avoid_edges or s in avoid_blocks:
                continue
            node = (s, env2)
            if node not in seen:
                seen.add(node)
                dq.append(node)
    return reached


def path_edges(body, starts, goal_blocks, avoid_edges=(), avoid_blocks=()):
    """A shortest block path from any start to any goal under the same restrictions, or None."""
    avoid_edges = set(avoid_edges)
    avoid_blocks = set(avoid_blocks)
    goal = set(goal_blocks)
    prev = {}
    dq = deque()
    for s in starts:
        if s not in avoid_blocks and s not in prev:
            prev[s] = None
            dq.append(s)
    while dq:
        b = dq.popleft()
        if b in goal:
            path = []
            while b is not None:
                path.append(b)
                b = prev[b]
            return path[::-1]
        for s in body.succs(b):
            if (b, s) in avoid_edges or s in avoid_blocks or s in prev:
                continue
            prev[s] = b
            dq.append(s)
    return None


# ----------------------------------------------------------------------------------------------
# exit classification


def exit_assignments(body):
    """Classify every write to the return place `_0` of a Result/Option-returning body.
    Returns list of dicts {bb, cls, detail} with cls in
    ok / err / residual / forward / unknown."""
    out = []
    for blk in body.blocks:
        if blk.cleanup:
            continue
        for s in blk.stmts:
            if s.kind == 'A' and s.place.is_local() and s.place.local == 0:
                rv = s.rv
                if rv.k == 'agg' and rv.raw.get('ak') == 'adt':
                    adt, var = rv.raw['adt'], rv.raw['variant']
                    if adt == 'std::result::Result':
                        out.append({'bb': blk.idx, 'cls': 'ok' if var == 'Ok' else 'err',
                                    'detail': var, 'stmt': s})
                    elif adt == 'std::option::Option':
                        out.append({'bb': blk.idx, 'cls': 'ok' if var == 'Some' else 'err',
                                    'detail': var, 'stmt': s})
                    else:
                        out.append({'bb': blk.idx, 'cls': 'unknown', 'detail': adt + '::' + var, 'stmt': s})
                elif rv.k == 'use':
                    o = rv.ops[0]
                    if o.place is not None and o.place.is_local():
                        out.append({'bb': blk.idx, 'cls': 'forward', 'detail': o.place.local, 'stmt': s})
                    elif o.kind == 'k':
                        out.append({'bb': blk.idx, 'cls': 'const', 'detail': o.const.get('v'), 'stmt': s})
                    else:
                        out.append({'bb': blk.idx, 'cls': 'unknown', 'detail': repr(o), 'stmt': s})
                else:
                    out.append({'bb': blk.idx, 'cls': 'unknown', 'detail': rv.k, 'stmt': s})
            elif s.kind == 'A' and s.place.local == 0 and not s.place.is_local():
                out.append({'bb': blk.idx, 'cls': 'partial', 'detail': repr(s.place), 'stmt': s})
        t = blk.term
        if t.k == 'call' and t.dest is not None and t.dest.is_local() and t.dest.local == 0:
            names = {t.resolved, t.callee}
            if names & set(_FROM_RESIDUAL):
                out.append({'bb': blk.idx, 'cls': 'residual', 'detail': 'from_residual', 'term': t})
            else:
                out.append({'bb': blk.idx, 'cls': 'callret', 'detail': t.resolved or t.callee, 'term': t})
    return out


# ----------------------------------------------------------------------------------------------
# MOD summary


class Mod:
    """mod[q][param] = set of field paths (relative to the pointee of pointer parameter `param`,
    or to the by-value parameter itself for closures' environments) that q may write.
    External callees that receive a mutable pointer are assumed to write the whole pointee."""

    MAXLEN = 6

    def __init__(self, prog, pure_externals=()):
        self.prog = prog
        self.pure_ext = set(pure_externals)
        self.mod = {q: defaultdict(set) for q in prog.bodies}
        self.al = {}
        self._sites = {}
        self.ret_paths = {}
        self._solve_ret_paths()
        self._solve()

    def _solve_ret_paths(self):
        cands = [q for q, b in self.prog.bodies.items()
                 if b.kind != 'closure' and ('&' in b.locals[0] or "'" in b.locals[0])]
        for _ in range(4):
            new = {}
            for q in cands:
                new[q] = Aliases(self.prog.bodies[q], self.ret_paths).return_path()
            if new == self.ret_paths:
                break
            self.ret_paths = new
        self.al = {}

    def aliases(self, q):
        if q not in self.al:
            self.al[q] = Aliases(self.prog.bodies[q], self.ret_paths)
        return self.al[q]

    def _trunc(self, p):
        return tuple(p[:self.MAXLEN])

    def _local_effects(self, q):
        """Direct writes and call sites with pointer arguments (computed once)."""
        if q in self._sites:
            return self._sites[q]
        body = self.prog.bodies[q]
        al = self.aliases(q)
        writes = []  # (root, fields)
        calls = []   # (callee names, [(argidx, root, fields, mutable)], bb)
        closures = []  # (closure q, [(upvar name, root, fields, mutable, byref)])
        for blk in body.blocks:
            if blk.cleanup:
                continue
            for s in blk.stmts:
                root, fields, derefd = al.norm(s.place)
                if derefd:
                    writes.append((root, fields, blk.idx))
                if s.kind == 'A' and s.rv.k == 'agg' and s.rv.raw.get('ak') == 'closure':
                    caps = []
                    for name, o in zip(s.rv.raw.get('fields', []), s.rv.ops):
                        t = al.operand_target(o)
                        if t is not None:
                            caps.append((name, t[0], t[1], t[2]))
                    closures.append((s.rv.raw['def'], caps, blk.idx))
            t = blk.term
            if t.k == 'call':
                ptrs = []
                for i, o in enumerate(t.args):
                    tt = al.operand_target(o)
                    if tt is not None:
                        ptrs.append((i, tt[0], tt[1], tt[2]))
                # destination written through a pointer
                if t.dest is not None:
                    root, fields, derefd = al.norm(t.dest)
                    if derefd:
                        writes.append((root, fields, blk.idx))
                calls.append((t, ptrs, blk.idx))
            elif t.k == 'drop':
                pass
        self._sites[q] = (writes, calls, closures)
        return self._sites[q]

    def callee_mod(self, t, argidx, owner=None):
        """Paths a call may write below its pointer argument `argidx` (None = nothing)."""
        res = t.resolved
        gen = t.callee
        for name in (res, gen):
            if name in self.prog.bodies:
                m = self.mod[name].get(argidx + 1)
                return set(m) if m else set()
        # closure call through FnOnce/FnMut/Fn::call*: arg0 is the closure (env)
        # external: assume whole pointee written
        name = res or gen or ''
        dest_ty = None
        if t.dest is not None and t.dest.is_local() and owner is not None:
            dest_ty = owner.locals[t.dest.local]
        if name in self.pure_ext or is_handout(name, dest_ty):
            return set()
        return {()}

    def _solve(self):
        prog = self.prog
        changed = True
        rounds = 0
        while changed and rounds < 50:
            changed = False
            rounds += 1
            for q, body in prog.bodies.items():
                writes, calls, closures = self._local_effects(q)
                cur = self.mod[q]

                def add(root, path):
                    nonlocal changed
                    if root == 0 or root > body.nargs:
                        return
                    p = self._trunc(path)
                    if p not in cur[root]:
                        # subsumed by a shorter path?
                        cur[root].add(p)
                        changed = True
                for (root, fields, _) in writes:
                    add(root, fields)
                for (t, ptrs, _) in calls:
                    for (i, root, fields, mutable) in ptrs:
                        if not mutable:
                            continue
                        for cp in self.callee_mod(t, i, body):
                            add(root, fields + cp)
                for (cq, caps, _) in closures:
                    if cq not in prog.bodies:
                        continue
                    cm = self.mod[cq].get(1, set())
                    for (name, root, fields, mutable) in caps:
                        if not mutable:
                            continue
                        key = '^' + name
                        for cp in cm:
                            if cp and cp[0] == key:
                                add(root, fields + cp[1:])
        self.rounds = rounds

    def may_write(self, q, param, paths):
        """Does q possibly write any of the access paths `paths` below parameter `param`?"""
        for m in self.mod[q].get(param, ()):
            for p in paths:
                if path_overlaps(m, p):
                    return True
        return False
