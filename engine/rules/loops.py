"""LOOP — termination by classification of every natural loop in MIR."""
from collections import defaultdict, deque

import flow

INFINITE_ITER_MARKERS = ('Repeat', 'RepeatWith', 'Cycle', 'RangeFrom', 'Successors', 'FromFn', 'repeat_with',
                         'mpsc::', 'Receiver', 'Lines<', 'Incoming', 'Iter<std::sync::mpsc')
POP_NAMES = ('pop', 'pop_front', 'pop_back', 'pop_first', 'pop_last')
PUSH_NAMES = ('push', 'push_back', 'push_front', 'insert', 'extend', 'extend_from_slice', 'append')


def natural_loops(body):
    """header -> set of blocks (merged over back edges)."""
    dom = body.dominators()
    loops = {}
    live = body.live_blocks()
    for u in live:
        for h in body.succs(u):
            if h in dom.get(u, ()):  # back edge u -> h
                nodes = loops.setdefault(h, {h})
                stack = [u]
                while stack:
                    x = stack.pop()
                    if x in nodes:
                        continue
                    nodes.add(x)
                    for p in body.preds.get(x, []):
                        if p in live:
                            stack.append(p)
    return loops


def _cycle_through_header_without(body, h, nodes, removed):
    """Is there still a cycle h -> ... -> h inside `nodes` avoiding blocks in `removed`?"""
    if h in removed:
        return False
    seen = set()
    dq = deque(s for s in body.succs(h) if s in nodes and s not in removed)
    while dq:
        x = dq.popleft()
        if x == h:
            return True
        if x in seen:
            continue
        seen.add(x)
        for s in body.succs(x):
            if s in nodes and s not in removed:
                dq.append(s)
    return False


def _exits_loop_on(body, bb, nodes, edges):
    return any(dst not in nodes for (src, dst) in edges if src is not None)


def classify(prog, body, h, nodes, al):
    """Returns (class, detail).  class in finite-iterator, counter, worklist-drain,
    worklist-visited, worklist-budget, input-driven, unclassified."""
    # ---- (a) finite iterator
    iter_blocks = []
    why_not = []
    for bb in sorted(nodes):
        t = body.blocks[bb].term
        if t.k != 'call':
            continue
        name = t.callee or ''
        res = t.resolved or ''
        last = name.rsplit('::', 1)[-1]
        if last not in ('next', 'next_back') or 'Iterator' not in name and 'Iterator' not in res:
            continue
        selfty = (t.func.const.get('selfty') or '') if t.func is not None and t.func.kind == 'k' else ''
        if any(m in selfty for m in INFINITE_ITER_MARKERS):
            why_not.append('iterator type %s may be infinite' % selfty[:60])
            continue
        cf = flow.call_flow(body, bb)
        # None edge must leave the loop
        if not any(dst not in nodes for (_, dst) in cf.err_edges):
            why_not.append('None edge of next() at block %d stays in the loop' % bb)
            continue
        # the iterator must not be re-created inside the loop
        it_local = None
        if t.args and t.args[0].place is not None:
            tt = al.operand_target(t.args[0])
            it_local = tt[0] if tt else t.args[0].place.local
        if it_local is not None:
            redefined = any(d[0] in nodes for d in body.defs.get(it_local, []))
            if redefined and not (1 <= it_local <= body.nargs):
                why_not.append('iterator local _%d is re-assigned inside the loop' % it_local)
                continue
        iter_blocks.append(bb)
    if iter_blocks and not _cycle_through_header_without(body, h, nodes, set(iter_blocks)):
        return 'finite-iterator', 'every cycle passes Iterator::next at blocks %s' % iter_blocks
    # ---- serde MapAccess / SeqAccess driven loops
    for bb in sorted(nodes):
        t = body.blocks[bb].term
        if t.k == 'call' and (t.callee or '').rsplit('::', 1)[-1] in ('next_key', 'next_element', 'next_entry', 'next_key_seed', 'next_element_seed'):
            cf = flow.call_flow(body, bb)
            if not _cycle_through_header_without(body, h, nodes, {bb}):
                return 'input-driven', 'every cycle consumes one item of the deserializer input (block %d)' % bb
    # ---- (c) work-list
    pops = []
    for bb in sorted(nodes):
        t = body.blocks[bb].term
        if t.k == 'call' and ((t.callee or t.resolved or '').rsplit('::', 1)[-1] in POP_NAMES and t.callee_krate != 'delaunay'
                              or _is_pop_wrapper(prog, t.resolved or t.callee)):
            cf = flow.call_flow(body, bb)
            if any(dst not in nodes for (_, dst) in cf.err_edges):
                pops.append(bb)
    if pops and not _cycle_through_header_without(body, h, nodes, set(pops)):
        # collections popped
        popped = set()
        for bb in pops:
            t = body.blocks[bb].term
            tt = al.operand_target(t.args[0]) if t.args else None
            if tt:
                popped.add((tt[0], tt[1]))
        pushes = []
        for bb in sorted(nodes):
            t = body.blocks[bb].term
            if t.k != 'call':
                continue
            nm = (t.callee or t.resolved or '').rsplit('::', 1)[-1]
            if nm in PUSH_NAMES and t.args:
                tt = al.operand_target(t.args[0])
                if tt and (tt[0], tt[1]) in popped:
                    pushes.append(bb)
            else:
                # local callee receiving the work list mutably may push
                for i, o in enumerate(t.args):
                    tt = al.operand_target(o)
                    if tt and tt[2] and (tt[0], tt[1]) in popped and nm not in POP_NAMES + ('len', 'is_empty', 'clear'):
                        name = t.resolved or t.callee or ''
                        if _is_pop_wrapper(prog, name):
                            continue
                        if name in prog.bodies or not flow.is_handout(name):
                            pushes.append(bb)
        if not pushes:
            return 'worklist-drain', 'pops at blocks %s, nothing pushed onto the popped collection inside the loop' % pops
        guards = _visited_guards(body, nodes, al)
        unguarded = []
        for pb in pushes:
            if not any(_dominated_by_edge(body, nodes, h, pb, e) for e in guards):
                unguarded.append(pb)
        if not unguarded:
            return 'worklist-visited', 'every push (blocks %s) is behind a fresh-insert edge of a visited set' % pushes
        if _has_budget(body, nodes, al):
            return 'worklist-budget', 'pushes at %s; a monotone counter is compared on an exiting edge' % pushes
        return 'unclassified', 'work-list loop with pushes at blocks %s not behind a visited-set guard' % unguarded
    # ---- (b) bounded counter
    c = _counter(body, h, nodes)
    if c:
        return 'counter', c
    # ---- (d) collector: `while out.len() < bound { .. out.push(x) .. }` with a push on every cycle
    c = _collector(body, h, nodes, al)
    if c:
        return 'collector', c
    return 'unclassified', '; '.join(why_not) or 'no iterator / counter / work-list idiom recognised'



def _collector(body, h, nodes, al):
    """The loop runs while `X.len()` is below a loop-invariant bound (the comparison decides an exiting edge), every
    cycle through the header pushes onto X, and nothing in the loop shrinks X: at most `bound` iterations."""
    import valueflow
    uses = flow._collect_uses(body)
    for bb in sorted(nodes):
        t = body.blocks[bb].term
        if t.k != 'call' or (t.callee or t.resolved or '').rsplit('::', 1)[-1] != 'len' or not t.args or t.dest is None or \
                not t.dest.is_local():
            continue
        tt = al.operand_target(t.args[0])
        if tt is None:
            continue
        X = (tt[0], tt[1])
        # the length feeds a comparison that decides an exiting edge
        exits = False
        bound_ok = False
        work = [t.dest.local]
        seen = set()
        while work:
            l = work.pop()
            if l in seen:
                continue
            seen.add(l)
            for (ubb, _, node, how) in uses.get(l, []):
                if ubb not in nodes:
                    continue
                if how == 'stmt' and node.rv.k == 'use' and node.place.is_local():
                    work.append(node.place.local)
                elif how == 'stmt' and node.rv.k == 'bin' and node.rv.raw.get('op') in ('Lt', 'Le', 'Gt', 'Ge', 'Ne') and node.place.is_local():
                    other = [o for o in node.rv.ops if not (o.place is not None and o.place.local == l)]
                    inv = True
                    for o in other:
                        if o.place is None:
                            continue
                        for leaf in valueflow.sources(body, al, o.place.local):
                            if leaf[0] == 'call' and leaf[2] in nodes and \
                                    (leaf[1].callee or leaf[1].resolved or '').rsplit('::', 1)[-1] not in ('add', 'sub', 'min', 'max', 'saturating_add'):
                                inv = False
                    for (sbb, _, snode, show) in uses.get(node.place.local, []):
                        if show == 'switch' and sbb in nodes:
                            tgts = [tg for _, tg in snode.values] + ([snode.otherwise] if snode.otherwise is not None else [])
                            if any(tg not in nodes for tg in tgts):
                                exits = True
                                bound_ok = inv
        if not exits or not bound_ok:
            continue
        pushes = set()
        shrinks = []
        for pb in sorted(nodes):
            pt = body.blocks[pb].term
            if pt.k != 'call' or not pt.args:
                continue
            nm = (pt.callee or pt.resolved or '').rsplit('::', 1)[-1]
            for i, o in enumerate(pt.args):
                ptt = al.operand_target(o)
                if ptt is None or (ptt[0], ptt[1]) != X or not ptt[2]:
                    continue
                if nm in PUSH_NAMES and i == 0:
                    pushes.add(pb)
                elif nm not in ('len', 'is_empty', 'iter', 'as_slice', 'contains', 'last', 'first', 'get', 'deref', 'index'):
                    shrinks.append((pb, nm))
        if not pushes or shrinks:
            continue
        if _cycle_through_header_without(body, h, nodes, pushes):
            continue
        return 'exits when len() of a collection reaches a loop-invariant bound (block %d); every cycle pushes onto it (blocks %s)' % (
            bb, sorted(pushes))
    return None

_POPW = {}


def _is_pop_wrapper(prog, name):
    """A crate function that returns an Option and whose only mutation of its first `&mut`
    collection parameter is an external pop_front / pop_back / pop."""
    if name in _POPW:
        return _POPW[name]
    res = False
    b = prog.bodies.get(name)
    if b is not None and b.locals[0].startswith('std::option::Option') and b.nargs >= 1 and b.locals[1].startswith('&mut'):
        pops = 0
        others = 0
        for bb, t in b.calls():
            last = (t.callee or t.resolved or '').rsplit('::', 1)[-1]
            if t.args and t.args[0].place is not None and t.args[0].place.local in _param_copies(b, 1):
                if last in POP_NAMES:
                    pops += 1
                else:
                    others += 1
        res = pops >= 1 and others == 0
    _POPW[name] = res
    return res


def _param_copies(b, p):
    out = {p}
    changed = True
    while changed:
        changed = False
        for blk in b.blocks:
            for s in blk.stmts:
                if s.kind == 'A' and s.place.is_local() and s.place.local not in out:
                    src = s.rv.place if s.rv.k in ('ref', 'deref_copy') else (s.rv.ops[0].place if s.rv.k == 'use' and s.rv.ops else None)
                    if src is not None and src.local in out:
                        out.add(s.place.local)
                        changed = True
    return out


def _visited_guards(body, nodes, al):
    """CFG edges inside the loop that are taken only when an element was *newly* inserted into a
    set/map (HashSet::insert -> true, HashMap/SecondaryMap insert -> None, contains* -> false)."""
    edges = set()
    for bb in nodes:
        t = body.blocks[bb].term
        if t.k != 'call':
            continue
        nm = (t.callee or t.resolved or '')
        last = nm.rsplit('::', 1)[-1]
        if last == 'insert' and t.dest is not None and t.dest.is_local():
            ty = body.locals[t.dest.local]
            cf = flow.call_flow(body, bb)
            if ty == 'bool':
                edges |= cf.ok_edges          # HashSet::insert == true: fresh
            elif ty.startswith('std::option::Option'):
                edges |= cf.err_edges         # map insert returned None: fresh
        elif last in ('contains', 'contains_key') and t.dest is not None and t.dest.is_local():
            cf = flow.call_flow(body, bb)
            edges |= cf.err_edges             # not contained
        elif last == 'get' and t.dest is not None and t.dest.is_local() and \
                body.locals[t.dest.local].startswith('std::option::Option'):
            cf = flow.call_flow(body, bb)
            edges |= cf.err_edges             # map.get(k) == None: not seen yet
    # `if !visited[n] { visited[n] = true; push }` on a bool vector / array
    def elem_root(place):
        root, fields, derefd = al.norm(place)
        if '[]' in fields or any(p.startswith('[') for p in place.proj):
            return root
        return None

    marked_roots = set()
    for bb in nodes:
        for s in body.blocks[bb].stmts:
            if s.kind == 'A' and s.rv.k == 'use' and s.rv.ops and s.rv.ops[0].kind == 'k' and \
                    s.rv.ops[0].const.get('v') == 'true':
                r_ = elem_root(s.place)
                if r_ is not None:
                    marked_roots.add(r_)
    if marked_roots:
        def is_mark_read(local):
            d = body.single_def(local)
            if d is None or d[1] == 'term':
                return False
            rv = d[2].rv
            if rv.k == 'use' and rv.ops and rv.ops[0].place is not None and not rv.ops[0].place.is_local():
                return elem_root(rv.ops[0].place) in marked_roots
            return False

        for bb in nodes:
            t = body.blocks[bb].term
            if t.k != 'switch' or t.discr.place is None or not t.discr.place.is_local():
                continue
            dl = t.discr.place.local
            listed = {v: tg for v, tg in t.values}
            if is_mark_read(dl):
                if 0 in listed:
                    edges.add((bb, listed[0]))    # visited[n] == false
                continue
            d = body.single_def(dl)
            if d is not None and d[1] != 'term' and d[2].rv.k == 'un' and d[2].rv.raw['op'] == 'Not':
                inner = d[2].rv.ops[0].place
                if inner is not None and inner.is_local() and is_mark_read(inner.local):
                    edges.add((bb, t.otherwise))  # !visited[n] == true
    return edges


def _dominated_by_edge(body, nodes, h, target, edge):
    """Within one iteration (paths from the header that stay in the loop), is `target` reachable
    only through `edge`?"""
    reach = flow.reach_edges(body, [h], avoid_edges={edge})
    # restrict to paths that do not go around the loop again: remove back edges into h
    if target not in reach:
        return True
    # second chance: reachability inside the loop body without re-entering the header
    seen = set()
    dq = deque([h])
    while dq:
        x = dq.popleft()
        for s in body.succs(x):
            if (x, s) == edge or s == h or s not in nodes or s in seen:
                continue
            seen.add(s)
            dq.append(s)
    return target not in seen


def _has_budget(body, nodes, al):
    return _counter(body, None, nodes, need_all_cycles=False) is not None


def _counter(body, h, nodes, need_all_cycles=True):
    """A local (or a field through a pointer) that is only ever incremented by a constant inside
    the loop and compared with something on an edge that leaves the loop."""
    incs = defaultdict(list)   # key -> blocks
    other_writes = defaultdict(int)
    for bb in nodes:
        for s in body.blocks[bb].stmts:
            if s.kind != 'A':
                continue
            key = s.place.key()
            rv = s.rv
            if rv.k == 'bin' and rv.raw['op'] in ('Add', 'AddWithOverflow', 'AddUnchecked', 'Sub', 'SubWithOverflow', 'SubUnchecked',
                                                  'Shr', 'ShrUnchecked', 'Div'):
                a, b_ = rv.ops
                if (a.place is not None and b_.int_value() is not None) or (b_.place is not None and a.int_value() is not None):
                    src = a.place if a.place is not None else b_.place
                    incs[('tmp', s.place.local)].append((bb, src.key()))
        t = body.blocks[bb].term
        if t.k == 'call' and (t.callee or '').rsplit('::', 1)[-1] in ('saturating_add', 'wrapping_add', 'checked_add', 'saturating_sub', 'add_assign'):
            if t.args and t.args[0].place is not None:
                incs[('tmp', t.dest.local if t.dest is not None and t.dest.is_local() else -1)].append((bb, t.args[0].place.key()))
    if not incs:
        return None
    # comparisons on exiting edges
    for bb in nodes:
        t = body.blocks[bb].term
        if t.k != 'switch':
            continue
        if not any(s not in nodes for s in body.succs(bb)):
            continue
        if t.discr.place is None or not t.discr.place.is_local():
            continue
        d = body.single_def(t.discr.place.local)
        if d is None or d[1] == 'term':
            continue
        rv = d[2].rv
        if rv.k == 'bin' and rv.raw['op'] in ('Lt', 'Le', 'Gt', 'Ge', 'Eq', 'Ne'):
            if h is None or not need_all_cycles or not _cycle_through_header_without(body, h, nodes, {bb}):
                # the compared value must be a counter that every cycle advances
                cmp_keys = set()
                for o in rv.ops:
                    if o.place is None:
                        continue
                    cmp_keys.add(o.place.key())
                    l = o.place.local
                    for _ in range(4):
                        dd = body.single_def(l)
                        if dd is None or dd[1] == 'term' or dd[2].rv.k != 'use' or not dd[2].rv.ops or dd[2].rv.ops[0].place is None:
                            break
                        cmp_keys.add(dd[2].rv.ops[0].place.key())
                        l = dd[2].rv.ops[0].place.local
                for (_k, lst) in incs.items():
                    srcs = {src for (_b, src) in lst}
                    if not (srcs & cmp_keys):
                        continue
                    inc_blocks = {b_ for (b_, src) in lst if src in cmp_keys}
                    if h is None or not need_all_cycles or not _cycle_through_header_without(body, h, nodes, inc_blocks):
                        return 'counter compared (%s) on an exiting edge at block %d; advanced on every cycle at %s' % (
                            rv.raw['op'], bb, sorted(inc_blocks)[:4])
    return None
