"""Fact base loader and CFG utilities over the MIR facts written by engine/driver (dfacts)."""
import json
import re
import sys
from collections import defaultdict, deque


def strip_generics(s):
    """Remove `::<...>` / `<...>` generic argument lists (balanced) from a def-path string,
    keeping a leading `<A as B>` qualified-self form intact."""
    out = []
    depth = 0
    i = 0
    n = len(s)
    # keep a leading "<X as Y>::" qualified path
    keep_first = s.startswith('<')
    while i < n:
        c = s[i]
        if c == '<':
            if keep_first and i == 0:
                out.append(c)
                i += 1
                continue
            depth += 1
            # drop a preceding "::"
            if depth == 1 and len(out) >= 2 and out[-1] == ':' and out[-2] == ':':
                out.pop()
                out.pop()
            i += 1
            continue
        if c == '>':
            if depth > 0:
                depth -= 1
                i += 1
                continue
            out.append(c)
            i += 1
            continue
        if c == '-' and i + 1 < n and s[i + 1] == '>':
            if depth == 0:
                out.append('->')
            i += 2
            continue
        if depth == 0:
            out.append(c)
        i += 1
    return ''.join(out)


class Place:
    __slots__ = ('local', 'proj')

    def __init__(self, raw):
        self.local = raw[0]
        self.proj = tuple(raw[1])

    def __repr__(self):
        s = '_%d' % self.local
        for p in self.proj:
            if p == '*':
                s = '(*%s)' % s
            else:
                s = s + p
        return s

    def is_local(self):
        return not self.proj

    def key(self):
        return (self.local, self.proj)


class Operand:
    __slots__ = ('kind', 'place', 'const')

    def __init__(self, raw):
        self.kind = raw[0]  # 'c' copy, 'm' move, 'k' const
        if self.kind == 'k':
            self.const = raw[1]
            self.place = None
        else:
            self.place = Place(raw[1])
            self.const = None

    def __repr__(self):
        if self.kind == 'k':
            c = self.const
            if 'fn' in c:
                return 'fn(%s)' % c['fn']
            if 'closure' in c:
                return 'closure(%s)' % c['closure']
            return 'const %s' % c.get('v')
        return ('move ' if self.kind == 'm' else '') + repr(self.place)

    def int_value(self):
        if self.kind == 'k' and 'i' in self.const:
            return int(self.const['i'])
        return None


class Rvalue:
    __slots__ = ('k', 'raw', 'ops', 'place')

    def __init__(self, raw):
        self.k = raw['k']
        self.raw = raw
        self.ops = []
        self.place = None
        if 'o' in raw:
            if isinstance(raw['o'], list) and raw['o'] and isinstance(raw['o'][0], list):
                self.ops = [Operand(o) for o in raw['o']]
            elif isinstance(raw['o'], list) and raw['o'] and isinstance(raw['o'][0], str):
                self.ops = [Operand(raw['o'])]
            else:
                self.ops = []
        if 'a' in raw and self.k == 'bin':
            self.ops = [Operand(raw['a']), Operand(raw['b'])]
        if 'p' in raw:
            self.place = Place(raw['p'])

    def __repr__(self):
        r = self.raw
        if self.k == 'use':
            return repr(self.ops[0])
        if self.k == 'ref':
            return '&%s%r' % ('mut ' if r['m'] else '', self.place)
        if self.k == 'raw':
            return '&raw %s%r' % ('mut ' if r['m'] else 'const ', self.place)
        if self.k == 'cast':
            return '%r as %s (%s)' % (self.ops[0], r['ty'], r['ck'])
        if self.k == 'bin':
            return '%s(%r, %r)' % (r['op'], self.ops[0], self.ops[1])
        if self.k == 'un':
            return '%s(%r)' % (r['op'], self.ops[0])
        if self.k == 'discr':
            return 'discriminant(%r)' % self.place
        if self.k == 'deref_copy':
            return 'deref_copy %r' % self.place
        if self.k == 'agg':
            ak = r['ak']
            if ak == 'adt':
                return '%s::%s{%s}' % (r['adt'], r['variant'], ', '.join(map(repr, self.ops)))
            if ak == 'closure':
                return 'closure %s[%s]' % (r['def'], ', '.join(map(repr, self.ops)))
            return '%s(%s)' % (ak, ', '.join(map(repr, self.ops)))
        if self.k == 'tls':
            return 'tls(%s)' % r['def']
        return self.k


class Stmt:
    __slots__ = ('kind', 'place', 'rv', 'line', 'variant')

    def __init__(self, raw):
        self.kind = raw[0]
        self.place = Place(raw[1])
        if self.kind == 'A':
            self.rv = Rvalue(raw[2])
            self.variant = None
        else:
            self.rv = None
            self.variant = raw[2]
        self.line = raw[3]

    def __repr__(self):
        if self.kind == 'A':
            return '%r = %r' % (self.place, self.rv)
        return 'discriminant(%r) = %s' % (self.place, self.variant)


class Term:
    __slots__ = ('k', 'raw', 'func', 'args', 'dest', 'target', 'unwind', 'line', 'discr',
                 'values', 'otherwise', 'place', 'cond', 'exp')

    def __init__(self, raw):
        self.k = raw['k']
        self.raw = raw
        self.line = raw.get('line', 0)
        self.func = None
        self.args = []
        self.dest = None
        self.target = None
        self.unwind = raw.get('u')
        self.discr = None
        self.values = []
        self.otherwise = None
        self.place = None
        self.cond = None
        self.exp = raw.get('exp', [])
        if self.k in ('call', 'tailcall'):
            self.func = Operand(raw['f'])
            self.args = [Operand(a) for a in raw['a']]
            if 'd' in raw:
                self.dest = Place(raw['d'])
            self.target = raw.get('t')
        elif self.k == 'goto':
            self.target = raw['t']
        elif self.k == 'switch':
            self.discr = Operand(raw['d'])
            self.values = [(int(v), t) for v, t in raw['v']]
            self.otherwise = raw['o']
        elif self.k == 'drop':
            self.place = Place(raw['p'])
            self.target = raw['t']
        elif self.k == 'assert':
            self.cond = Operand(raw['c'])
            self.target = raw['t']

    # ---- callee helpers
    @property
    def callee(self):
        """Generic (declared) callee qname, or None for indirect calls."""
        if self.func is not None and self.func.kind == 'k':
            return self.func.const.get('fn')
        return None

    @property
    def resolved(self):
        if self.func is not None and self.func.kind == 'k':
            c = self.func.const
            return c.get('res') or c.get('fn')
        return None

    @property
    def callee_krate(self):
        if self.func is not None and self.func.kind == 'k':
            c = self.func.const
            return c.get('rkrate') or c.get('krate')
        return None

    @property
    def self_ty(self):
        if self.func is not None and self.func.kind == 'k':
            return self.func.const.get('self')
        return None

    @property
    def generic_args(self):
        if self.func is not None and self.func.kind == 'k':
            return self.func.const.get('ga', '')
        return ''

    def succs(self):
        if self.k in ('goto', 'drop', 'assert'):
            return [self.target]
        if self.k == 'call':
            return [self.target] if self.target is not None else []
        if self.k == 'switch':
            return [t for _, t in self.values] + [self.otherwise]
        return []

    def __repr__(self):
        if self.k == 'call':
            return '%r = %s(%s) -> %s' % (self.dest, self.resolved or repr(self.func),
                                          ', '.join(map(repr, self.args)),
                                          'bb%s' % self.target if self.target is not None else '!')
        if self.k == 'goto':
            return 'goto bb%d' % self.target
        if self.k == 'switch':
            return 'switch %r [%s, otherwise bb%d]' % (
                self.discr, ', '.join('%d: bb%d' % vt for vt in self.values), self.otherwise)
        if self.k == 'drop':
            return 'drop(%r) -> bb%d' % (self.place, self.target)
        if self.k == 'assert':
            return 'assert(%r == %s, %s) -> bb%d' % (self.cond, self.raw['e'], self.raw['m'], self.target)
        return self.k


class Block:
    __slots__ = ('idx', 'stmts', 'term', 'cleanup')

    def __init__(self, idx, raw):
        self.idx = idx
        self.cleanup = raw['c']
        self.stmts = [Stmt(s) for s in raw['s']]
        self.term = Term(raw['t'])


class Body:
    def __init__(self, raw):
        self.raw = raw
        self.q = raw['q']
        self.path = raw['path']
        self.kind = raw['kind']
        self.file = raw['file']
        self.line = raw['line']
        self.name = raw.get('name')
        self.pub = raw.get('pub', False)
        self.exported = raw.get('exported', False)
        self.reachable = raw.get('reachable', False)
        self.parent = raw.get('parent')
        self.root = raw.get('root')
        self.impl_self = raw.get('impl_self')
        self.impl_trait = raw.get('impl_trait')
        self.trait_default = raw.get('trait_default')
        self.nargs = raw['nargs']
        self.locals = raw['locals']
        self.names = {}
        self.upvar_names = {}
        for k, v in raw['names'].items():
            if '#' in k:
                self.upvar_names[k.split('#', 1)[1]] = Place(v)
            else:
                self.names[int(k)] = v
        self._blocks = None
        self._preds = None
        self._defs = None
        self._dom = None
        self._pdom = None

    @property
    def blocks(self):
        if self._blocks is None:
            self._blocks = [Block(i, b) for i, b in enumerate(self.raw['blocks'])]
        return self._blocks

    def succs(self, b):
        return [s for s in self.blocks[b].term.succs() if not self.blocks[s].cleanup]

    @property
    def preds(self):
        if self._preds is None:
            p = defaultdict(list)
            for blk in self.blocks:
                if blk.cleanup:
                    continue
                for s in self.succs(blk.idx):
                    p[s].append(blk.idx)
            self._preds = p
        return self._preds

    def live_blocks(self):
        """Non-cleanup blocks reachable from entry."""
        seen = {0}
        dq = deque([0])
        while dq:
            b = dq.popleft()
            for s in self.succs(b):
                if s not in seen:
                    seen.add(s)
                    dq.append(s)
        return seen

    def calls(self):
        for blk in self.blocks:
            if blk.cleanup:
                continue
            if blk.term.k == 'call':
                yield blk.idx, blk.term

    def return_blocks(self):
        return [b.idx for b in self.blocks if not b.cleanup and b.term.k == 'ret']

    def reach(self, starts, avoid=()):
        """Blocks reachable from `starts` without entering any block in `avoid`
        (start blocks in `avoid` are excluded)."""
        avoid = set(avoid)
        seen = set()
        dq = deque()
        for s in starts:
            if s not in avoid and s not in seen:
                seen.add(s)
                dq.append(s)
        while dq:
            b = dq.popleft()
            for s in self.succs(b):
                if s not in seen and s not in avoid:
                    seen.add(s)
                    dq.append(s)
        return seen

    def reach_back(self, targets, avoid=()):
        avoid = set(avoid)
        seen = set()
        dq = deque()
        for s in targets:
            if s not in avoid and s not in seen:
                seen.add(s)
                dq.append(s)
        while dq:
            b = dq.popleft()
            for s in self.preds.get(b, []):
                if s not in seen and s not in avoid:
                    seen.add(s)
                    dq.append(s)
        return seen

    def dominators(self):
        """Immediate-dominator-free simple iterative dominator sets (small CFGs)."""
        if self._dom is None:
            live = sorted(self.live_blocks())
            allb = set(live)
            dom = {b: set(allb) for b in live}
            dom[0] = {0}
            changed = True
            order = live
            while changed:
                changed = False
                for b in order:
                    if b == 0:
                        continue
                    ps = [p for p in self.preds.get(b, []) if p in allb]
                    if not ps:
                        continue
                    new = set.intersection(*(dom[p] for p in ps)) | {b}
                    if new != dom[b]:
                        dom[b] = new
                        changed = True
            self._dom = dom
        return self._dom

    def dominates(self, a, b):
        d = self.dominators()
        return b in d and a in d[b]

    # ---- local definitions
    @property
    def defs(self):
        """local -> list of (bb, idx or 'term', Stmt|Term) for whole-local assignments."""
        if self._defs is None:
            d = defaultdict(list)
            for blk in self.blocks:
                if blk.cleanup:
                    continue
                for i, s in enumerate(blk.stmts):
                    if s.kind == 'A' and s.place.is_local():
                        d[s.place.local].append((blk.idx, i, s))
                if blk.term.k == 'call' and blk.term.dest is not None and blk.term.dest.is_local():
                    d[blk.term.dest.local].append((blk.idx, 'term', blk.term))
            self._defs = d
        return self._defs

    def single_def(self, local):
        ds = self.defs.get(local, [])
        if len(ds) == 1:
            return ds[0]
        return None

    def local_name(self, local):
        return self.names.get(local, '_%d' % local)

    def show(self, out=sys.stdout):
        out.write('fn %s  [%s:%d] nargs=%d\n' % (self.q, self.file, self.line, self.nargs))
        for i, t in enumerate(self.locals):
            nm = self.names.get(i)
            out.write('  let _%d: %s%s\n' % (i, t, ('  // ' + nm) if nm else ''))
        for blk in self.blocks:
            if blk.cleanup:
                continue
            out.write(' bb%d:\n' % blk.idx)
            for s in blk.stmts:
                out.write('    %r   // L%d\n' % (s, s.line))
            out.write('    %r   // L%d %s\n' % (blk.term, blk.term.line,
                                                 ','.join(blk.term.exp) if blk.term.exp else ''))


class Program:
    def __init__(self, path):
        self.bodies = {}
        self.adts = {}
        self.impls = []
        self.statics = []
        self.consts = []
        self.meta = {}
        self.ended = False
        with open(path) as f:
            for line in f:
                r = json.loads(line)
                k = r['rec']
                if k == 'body':
                    b = Body(r)
                    if b.q in self.bodies:
                        # keep unique: disambiguate
                        n = 2
                        while '%s#%d' % (b.q, n) in self.bodies:
                            n += 1
                        b.q = '%s#%d' % (b.q, n)
                    self.bodies[b.q] = b
                elif k == 'adt':
                    self.adts[r['path']] = r
                elif k == 'impl':
                    self.impls.append(r)
                elif k == 'static':
                    self.statics.append(r)
                elif k == 'const':
                    self.consts.append(r)
                elif k == 'meta':
                    self.meta = r
                elif k == 'end':
                    self.ended = True
                    self.nbodies = r['bodies']
        if not self.ended:
            raise RuntimeError('fact file truncated: ' + path)
        self._callers = None
        self.children = defaultdict(list)
        for b in self.bodies.values():
            if b.parent:
                self.children[b.parent].append(b.q)

    def body(self, q):
        return self.bodies.get(q)

    def find(self, suffix):
        """Bodies whose qname ends with `suffix` at a path-segment boundary."""
        res = []
        for q in self.bodies:
            if q == suffix or q.endswith('::' + suffix):
                res.append(q)
        return res

    # ---- call graph (resolved callees; closures attributed at creation site and call site)
    def callees_of(self, q, include_closures=True):
        b = self.bodies[q]
        out = set()
        for _, t in b.calls():
            r = t.resolved
            if r:
                out.add(r)
            c = t.callee
            if c and c != r:
                out.add(c)
        if include_closures:
            for blk in b.blocks:
                if blk.cleanup:
                    continue
                for s in blk.stmts:
                    if s.kind == 'A' and s.rv.k == 'agg' and s.rv.raw.get('ak') in ('closure', 'coroutine'):
                        out.add(s.rv.raw['def'])
                # function items passed as values (fn pointers / fn-item arguments)
                for s in blk.stmts:
                    if s.kind == 'A':
                        for o in s.rv.ops:
                            if o.kind == 'k' and 'fn' in o.const:
                                out.add(o.const.get('res') or o.const['fn'])
                if blk.term.k == 'call':
                    for o in blk.term.args:
                        if o.kind == 'k' and 'fn' in o.const:
                            out.add(o.const.get('res') or o.const['fn'])
        return out

    @property
    def callgraph(self):
        if getattr(self, '_cg', None) is None:
            self._cg = {q: self.callees_of(q) for q in self.bodies}
        return self._cg

    @property
    def callers(self):
        if self._callers is None:
            c = defaultdict(set)
            for q, cs in self.callgraph.items():
                for x in cs:
                    c[x].add(q)
            self._callers = c
        return self._callers

    def reachable_from(self, roots, stop=()):
        stop = set(stop)
        seen = set()
        dq = deque()
        for r in roots:
            if r in self.bodies and r not in seen:
                seen.add(r)
                dq.append(r)
        while dq:
            q = dq.popleft()
            for c in self.callgraph.get(q, ()):
                if c in self.bodies and c not in seen and c not in stop:
                    seen.add(c)
                    dq.append(c)
        return seen

    def reaches(self, q, targets, _memo=None):
        """True if body q can reach (call-graph) any callee name in `targets`
        (targets may be external names)."""
        targets = set(targets)
        seen = {q}
        dq = deque([q])
        while dq:
            x = dq.popleft()
            for c in self.callgraph.get(x, ()):
                if c in targets:
                    return True
                if c in self.bodies and c not in seen:
                    seen.add(c)
                    dq.append(c)
        return False


def main():
    p = Program(sys.argv[1])
    for pat in sys.argv[2:]:
        for q in p.bodies:
            if pat in q:
                p.bodies[q].show()


if __name__ == '__main__':
    main()
