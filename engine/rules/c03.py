"""C03 — failed or skipped mutations leave no trace (rollback-on-failure, TXN).

Decided: for every *owner* — each exported `&mut` operation on Triangulation / DelaunayTriangulation
(insert, insert_with_statistics, remove_vertex, the 12 flip methods, both repair entry points, the
setters) and the crate-internal transactional layer they delegate to — every failing exit (`Err`,
or `Ok` carrying `InsertionOutcome::Skipped`) is reached with the Tds storage either untouched or
restored from a snapshot taken while it was still clean.  Callers may rely on a callee owner's
contract; every owner's own contract is judged on its own body and its non-owner helpers.
Not decided: that a restored clone is observationally identical (derive(Clone)), telemetry
statics, and the non-storage fields of the receiver (covered by SIDE below only for the
DelaunayTriangulation layer)."""
import flow
import pair
import txn
import c11
from pair import TDS, TRI, DT

EXPLANATION = (
    "TXN: interprocedural, path-sensitive dataflow over MIR. State per program point: storage CLEAN/DIRTY, "
    "validity of entry snapshots, outcome tags of recent fallible calls, class of the pending exit. MUT events = "
    "writes / mutating external calls on Tds.{vertices,cells,uuid_to_vertex_key,uuid_to_cell_key} (field-sensitive "
    "MOD summaries, hand-outs followed through carriers); a whole-place assignment from a clone of the same Tds "
    "taken while CLEAN restores CLEAN. Obligation: no owner returns Err / Skipped DIRTY. Every dirty failure exit "
    "is attributed to the owner whose own body produces it, keyed by (owner, exit constructor or propagated callee); "
    "such keys are either violations, known findings, or entries of the assumed-infeasible table with a reason. "
    "SNAPARG: snapshot parameters are checked at their call sites.")

T = 'core::triangulation::Triangulation::'
F = 'core::algorithms::flips::'
D_ = 'core::delaunay_triangulation::DelaunayTriangulation::'
TDSQ = 'core::triangulation_data_structure::Tds::'

# crate-internal transactional layer (owners besides the exported entry set)
LAYER = [
    T + 'insert_transactional',
    T + 'remove_vertex',
    F + 'repair_delaunay_with_flips_k2_k3',
    F + 'apply_bistellar_flip_k1',
    F + 'apply_bistellar_flip_k1_inverse',
    F + 'apply_bistellar_flip_with_k',
]

# result edges that cannot be taken (value correlations confirmed by reading), per function
INFEASIBLE = {
    F + 'apply_bistellar_flip_k1': [
        (TDSQ + 'get_vertex_by_key', 'err',
         'the key was returned by insert_vertex_with_mapping a few lines earlier and nothing removes it in between'),
    ],
}

# restore-by-inverse-operation (not a snapshot): function -> (inverse callee, undone callee, reason)
INVERSE = {
    F + 'apply_bistellar_flip_k1': (
        TDSQ + 'remove_vertex', TDSQ + 'insert_vertex_with_mapping',
        'on the failure edge the freshly inserted, still isolated vertex is removed again; the flip in between is '
        'an owner and clean on failure by its own obligation'),
}

# dirty failure exits accepted with a reason (class 2: infeasible by a value correlation;
# class 3: no witness, needs an internally inconsistent Tds or an injected fault).  Key = owner|exit
ASSUMED = {}
_SNAP_NONE = ('class 2: `snapshot` is None only when snapshot_needed was false, i.e. the repair policy is Never (and, for '
              'insert, the check policy does not fire); then every post-step that could fail after the mutation is '
              'skipped (should_run_delaunay_repair_for / should_check return false first), so the failure arm is never '
              'taken with snapshot == None. Only this None edge is cut: the Some edge must still restore.')
for _f in ('insert', 'insert_with_statistics', 'remove_vertex'):
    INFEASIBLE.setdefault(D_ + _f, []).append(('bool::then', 'err', _SNAP_NONE))
_F2 = ('class 3 (remaining exits of F2, no witness): failure after the first new cell was inserted; each of these calls fails only on an '
       'internally inconsistent Tds (missing vertex key, non-manifold cavity boundary, broken neighbour symmetry) or '
       'under an injected fault; no input through the public API found that reaches it')
for _c in ('Cell::new', 'Tds::insert_cell_with_mapping', 'locate::extract_cavity_boundary',
           'incremental_insertion::external_facets_for_boundary'):
    ASSUMED[F + 'apply_bistellar_flip_with_k|?(%s)' % _c] = _F2
# the other two post-mutation exits of the kernel (wire_cavity_neighbors, normalize_coherent_orientation) have
# run-time witnesses on a Tds made inconsistent through the public low-level mutators: known findings (F2)


def owners(prog, res):
    ents = c11.entry_set(prog, res)
    out = list(ents)
    for q in LAYER:
        if q in prog.bodies and res.res.get(q):
            for i, r in enumerate(res.res[q]):
                if r['mut'] and r['param'] is not None:
                    out.append((q, i))
    return out


def run(ctx):
    ctx.rule('TXN', 'no owner (exported &mut operation or transactional-layer function) returns Err / Skipped with '
                    'Tds storage DIRTY (mutated and not restored from a snapshot taken while CLEAN)')
    ctx.rule('SNAPARG', 'a `&Tds` snapshot parameter used for restoring is, at every call site, a clone of the same '
                        'Tds taken with no mutation in between')
    ctx.assumptions.append('derive(Clone) of Tds yields an observationally identical copy (same keys, same UUID maps)')
    for cfg in ctx.cfgs:
        prog = ctx.prog(cfg)
        mod = ctx.mod(cfg)
        _txn(ctx, cfg, prog, mod)
    if ctx.tier == 'thorough':
        import c05
        c05._witness(ctx)
    return ctx.finish(EXPLANATION)


def _txn(ctx, cfg, prog, mod):
    res = pair.Resources(prog, mod)
    own = owners(prog, res)
    oset = {q for q, _ in own}
    for q in LAYER:
        ctx.anchor(cfg, q)
    ctx.floor('TXN owners (entry set + transactional layer)', 26, len(own), cfg)
    eng = txn.TxnEngine(prog, mod, res, infeasible=INFEASIBLE, inverse_ok=INVERSE)
    eng.assume_clean = set(oset)
    roots = {}   # key -> dict
    dirty_owners = set()
    eng.solve()
    # Owners read each other on contract (fail => clean), so an owner's dirty failure exits depend
    # only on its own body and its non-owner helpers: peel them off one at a time per owner.
    it = 0
    for (q, i) in own:
        for _ in range(40):
            if not txn.dirty_fail(eng.summary[(q, i)]):
                break
            r = eng.own_root(q, i, oset)
            if r is None or r['exit_block'] is None:
                break
            it += 1
            key = '%s|%s' % (q, r['exit'])
            dirty_owners.add(q)
            if key not in roots:
                roots[key] = dict(r, owner=q)
            if r['exit_block'] in eng.cut_blocks.get(q, ()):
                break
            eng.cut_blocks.setdefault(q, set()).add(r['exit_block'])
            eng.summary[(q, i)] = eng.analyse(q, i)
    remaining = [(q, i) for (q, i) in own if txn.dirty_fail(eng.summary[(q, i)])]
    # per-owner obligations
    n_mut = 0
    for (q, i) in own:
        b = prog.bodies[q]
        summ = eng.summary[(q, i)]
        mutating = any(m for (_, m) in summ)
        n_mut += 1 if mutating else 0
        fails = any(cls in txn.FAILING for (cls, _) in summ)
        if q in dirty_owners or (q, i) in remaining:
            continue   # reported through its root keys below
        ctx.ob('TXN', q, cfg, True, 'outcomes (exit class, dirty) with callee owners on contract: %s' % sorted(summ),
               nontrivial=mutating and fails, site='%s:%d' % (b.file, b.line))
        if mutating and fails and cfg == ctx.cfgs[0]:
            ctx.sample({'rule': 'TXN', 'owner': q, 'outcomes': sorted(summ)})
    for (q, i) in remaining:
        b = prog.bodies[q]
        ctx.ob('TXN', q + '|unresolved', cfg, False,
               'owner still has a dirty failure exit after all attributed exits were removed (no witness path could be '
               'reconstructed): %s' % sorted(eng.summary[(q, i)]), site='%s:%d' % (b.file, b.line))
    for key, r in sorted(roots.items()):
        b = prog.bodies[r['owner']]
        detail = ('failure exit `%s` of %s is reached with storage DIRTY: last dirtying event %s; no restore from an '
                  'entry snapshot on the path (blocks %s)' % (r['exit'], r['owner'], r['source'], r['blocks'][-8:]))
        ctx.ob('TXN', key, cfg, False, detail, assumed=ASSUMED.get(key),
               site='%s:%s' % (b.file, r['line'] if r['line'] else b.line))
        if cfg == ctx.cfgs[0]:
            ctx.sample({'rule': 'TXN', 'dirty_failure_exit': key, 'source': r['source'],
                        'status': 'assumed-infeasible' if key in ASSUMED else 'reported'})
    for key in ASSUMED:
        oq = key.split('|', 1)[0]
        if oq not in prog.bodies:
            ctx.ob('ANCHOR', 'missing|' + oq, cfg, False, 'assumed-infeasible table names a function that no longer exists')
    ctx.floor('TXN owners that can mutate storage', 18, n_mut, cfg)
    ctx.info.setdefault('txn_peeled_exits', {})[cfg] = it
    # infeasible-edge table: listed as assumptions; the named call must still exist
    for fq, ents in sorted(INFEASIBLE.items()):
        fb = prog.bodies.get(fq)
        if fb is None:
            ctx.ob('ANCHOR', 'missing|' + fq, cfg, False, 'INFEASIBLE table names a function that no longer exists')
            continue
        for (callee, which, reason) in ents:
            n_edges = 0
            for body_q in [fq] + [c for c in prog.children.get(fq, [])]:
                bb_ = prog.bodies.get(body_q)
                if bb_ is None:
                    continue
                for cbb, ct in bb_.calls():
                    if (ct.resolved or ct.callee) == callee:
                        cf_ = flow.call_flow(bb_, cbb)
                        n_edges += len(cf_.err_edges if which == 'err' else cf_.ok_edges)
                if bb_.kind == 'closure':
                    n_edges += len(eng._captured_cut_edges(bb_, callee, which))
            if n_edges == 0:
                ctx.ob('ANCHOR', 'infeasible-edge-missing|%s|%s' % (fq, callee), cfg, False,
                       'INFEASIBLE table entry (%s, %s %s edge) matches no edge any more' % (fq, callee, which))
            else:
                ctx.ob('TXN', '%s|cut-edge|%s:%s' % (fq, txn.short(callee), which), cfg, False,
                       '%d result edge(s) of %s removed from the analysed CFG' % (n_edges, callee), assumed=reason,
                       nontrivial=False, site='%s:%d' % (fb.file, fb.line))
    # inverse table side condition: the inverse call is reachable only on a failure edge
    for q, (inv, undone, reason) in INVERSE.items():
        b = prog.bodies.get(q)
        if b is None:
            ctx.ob('ANCHOR', 'missing|' + q, cfg, False, 'INVERSE table names a function that no longer exists')
            continue
        inv_blocks = [bb for bb, t in b.calls() if (t.resolved or t.callee) == inv]
        undone_blocks = [bb for bb, t in b.calls() if (t.resolved or t.callee) == undone]
        cflows = flow.all_call_flows(b)
        err_edges = set()
        for cb, cf in cflows.items():
            err_edges |= cf.err_edges
        reach = flow.reach_edges(b, [0], avoid_edges=err_edges)
        ok = bool(inv_blocks) and bool(undone_blocks) and not any(ib in reach for ib in inv_blocks)
        ctx.ob('TXN', q + '|inverse-on-failure-edge-only', cfg, ok,
               'restore-by-inverse (%s undoing %s) is %s reachable only through a failure edge; table reason: %s' % (
                   txn.short(inv), txn.short(undone), '' if ok else 'NOT', reason), site='%s:%d' % (b.file, b.line))
        # ... and only after the undone call has succeeded: an undo that can run where the "do" never happened (the
        # undone call itself failed, e.g. a refused duplicate UUID) removes something that was there before
        done_edges = set()
        for ub in undone_blocks:
            done_edges |= cflows[ub].ok_edges
        reach2 = flow.reach_edges(b, [0], avoid_edges=done_edges)
        ok2 = bool(inv_blocks) and bool(done_edges) and not any(ib in reach2 for ib in inv_blocks)
        ctx.ob('TXN', q + '|inverse-only-after-success', cfg, ok2,
               'restore-by-inverse (%s) is %s reachable only behind the success edge of %s%s' % (
                   txn.short(inv), '' if ok2 else 'NOT', txn.short(undone),
                   '' if ok2 else ': when the undone call itself fails (it refuses a UUID that is already present) the inverse '
                   'runs on the pre-existing element and the failing call deletes it'), site='%s:%d' % (b.file, b.line))
    _snaparg(ctx, cfg, prog, mod, res, eng)
    _snapcond(ctx, cfg, prog, mod)
    _side(ctx, cfg, prog, mod)


def _side(ctx, cfg, prog, mod):
    """SIDE: the same rollback dataflow on the non-storage state named by the property (policies,
    counters, the duplicate index)."""
    import side
    ctx.rule('SIDE', 'no exported &mut operation returns Err / Skipped with insertion_state (policies, insertion counter), '
                     'spatial_index, validation_policy, topology_guarantee or global_topology changed and not restored '
                     '(copy/clone snapshots; whole-receiver replacements must come from a builder that copies the field)')
    keep, sites = side.keep_table(prog, mod)
    n_mut = 0
    for field in sorted(side.FIELDS):
        res, eng = side.engine_for(prog, mod, field, INFEASIBLE, keep)
        E = c11.entry_set(prog, res)
        oset = {q for q, _ in E}
        eng.assume_clean = set(oset)
        eng.solve()
        for (q, i) in E:
            summ = eng.summary[(q, i)]
            b = prog.bodies[q]
            mutating = any(m for (_, m) in summ)
            n_mut += 1 if mutating else 0
            ok = not txn.dirty_fail(summ)
            detail = 'outcomes (exit class, %s changed): %s' % (field, sorted(summ))
            if not ok:
                r = eng.own_root(q, i, oset)
                if r is not None:
                    detail += '; failing exit `%s` reached with %s changed by %s and not restored' % (
                        r['exit'], field, r['source'])
            ctx.ob('SIDE', '%s|%s' % (field, q), cfg, ok, detail, nontrivial=mutating and any(c in txn.FAILING for c, _ in summ),
                   site='%s:%d' % (b.file, b.line))
        for owner, (ok, d) in sorted(keep.get(field, {}).items()):
            ctx.ob('SIDE', '%s|replace|%s' % (field, owner), cfg, ok or field == 'spatial_index',
                   'whole-receiver replacement in %s: %s' % (owner.rsplit('::', 1)[-1], d), nontrivial=ok)
    ctx.floor('SIDE (field, operation) pairs that can change the field', 10, n_mut, cfg)
    ctx.floor('whole-receiver replacement sites', 1, len(sites), cfg)
    for q, why in sorted(side.BENIGN.items()):
        ctx.anchor(cfg, q)
        ctx.ob('SIDE', 'benign|' + q, cfg, False, 'writes of %s to the tracked fields are not counted' % q.rsplit('::', 1)[-1],
               assumed=why, nontrivial=False)


def _snaparg(ctx, cfg, prog, mod, res, eng):
    """Functions that restore the resource from a `&Tds` parameter: check every call site."""
    n = 0
    for (q, ridx), ev in list(eng.trace.items()):
        body = prog.bodies[q]
        if not any(e[0] == 'restore' for evs in ev.values() for e in evs):
            continue
        r = res.res[q][ridx]
        snap_params = []
        for i in range(1, body.nargs + 1):
            head, mut = pair.pointee_head(body.locals[i])
            if head == TDS and not mut and i != r['root']:
                snap_params.append(i)
        if not snap_params or body.kind == 'closure':
            continue
        for caller_q in sorted(prog.callers.get(q, ())):
            cb = prog.bodies.get(caller_q)
            if cb is None:
                continue
            for cri, cr in enumerate(res.res.get(caller_q, [])):
                if not cr['mut'] or res.tds_path(cr) is None:
                    continue
                al = mod.aliases(caller_q)
                if (caller_q, cri) not in eng.trace:
                    continue
                cev = eng.trace[(caller_q, cri)]
                for bb, t in cb.calls():
                    if (t.resolved or t.callee) != q:
                        continue
                    for sp in snap_params:
                        if sp - 1 >= len(t.args):
                            continue
                        o = t.args[sp - 1]
                        tt = al.operand_target(o)
                        n += 1
                        ok = False
                        why = 'argument is not a reference to a local'
                        if tt is not None and not (1 <= tt[0] <= cb.nargs):
                            snap_local = tt[0]
                            is_snap = eng._local_is_snapshot(cb, al, snap_local, cr, set())
                            if not is_snap:
                                why = 'argument does not trace back to a clone of the same Tds'
                            else:
                                # no mutation between the clone and the call
                                clone_blocks = [d[0] for d in cb.defs.get(snap_local, []) if d[1] == 'term']
                                between = flow.reach_edges(cb, clone_blocks)
                                back = cb.reach_back([bb])
                                mid = (between & back) - {bb}
                                dirty = []
                                for mb in mid:
                                    for e in cev.get(mb, []):
                                        if e[0] == 'm':
                                            dirty.append(mb)
                                        elif e[0] in ('call', 'call_nob') and mb not in clone_blocks:
                                            if any(cm for (_, cm) in eng.summary.get((e[1], e[2]), ())):
                                                dirty.append(mb)
                                # a loop that comes back to the clone re-takes the snapshot: only
                                # events on paths that do not pass the clone again matter
                                dirty2 = []
                                for mb in dirty:
                                    p = flow.path_edges(cb, cb.succs(mb), [bb], avoid_blocks=set(clone_blocks))
                                    if p is not None:
                                        dirty2.append(mb)
                                ok = not dirty2
                                why = 'snapshot argument is a clone of the same Tds' + (
                                    ' with no mutation before the call' if ok else
                                    '; but storage may be mutated between the clone and the call (blocks %s)' % dirty2[:4])
                        ctx.ob('SNAPARG', '%s|%s' % (caller_q, q), cfg, ok, why,
                               site='%s:%d' % (cb.file, t.line))
    ctx.info.setdefault('snaparg_sites', {})[cfg] = n


SHOULD_CHECK = 'core::delaunay_triangulation::DelaunayCheckPolicy::should_check'
MAYBE_CHECK = D_ + 'maybe_check_after_insertion'
SNAPCOND_SITES = {D_ + 'insert': True, D_ + 'insert_with_statistics': True, D_ + 'remove_vertex': False}


def _ascend_params(prog, mod, leaves, sub, depth=3):
    """A value that is a parameter of a helper continues in the helper's callers: for every
    ('param', i, helper) leaf, follow argument i of the calls to that helper found among `leaves`."""
    import valueflow
    out = list(sub)
    seen = set()
    work = [x for x in sub if x[0] == 'param']
    while work and depth > 0:
        depth -= 1
        nxt = []
        for (_, i, hq) in work:
            if (i, hq) in seen:
                continue
            seen.add((i, hq))
            for l in leaves:
                if l[0] != 'call' or (l[1].resolved or l[1].callee) != hq:
                    continue
                caller = prog.bodies[l[3]]
                if i - 1 >= len(l[1].args) or l[1].args[i - 1].place is None:
                    continue
                more = valueflow.deep_sources(prog, mod, caller, l[1].args[i - 1].place.local, depth=1)
                out += more
                nxt += [x for x in more if x[0] == 'param']
        work = nxt
    return out


def _snapcond(ctx, cfg, prog, mod):
    """SNAPCOND: the three conditional snapshots decide from the same inputs that make the fallible
    post-steps fire: the repair policy, and (when a Delaunay check follows) should_check evaluated
    one insertion ahead (count + 1), because the check runs after the counter is incremented."""
    import valueflow
    ctx.rule('SNAPCOND', 'the conditional snapshot looks at the repair policy and, where a check follows, at '
                         'should_check(insertion_count + 1)')
    for fq, needs_check in sorted(SNAPCOND_SITES.items()):
        b = ctx.anchor(cfg, fq)
        if b is None:
            continue
        thens = [(bb, t) for bb, t in b.calls() if (t.resolved or t.callee) == 'bool::then']
        site = '%s:%d' % (b.file, b.line)
        if not thens:
            ctx.ob('SNAPCOND', fq, cfg, True, 'no conditional snapshot (bool::then) in this function', nontrivial=False, site=site)
            continue
        for bb, t in thens:
            flag = t.args[0]
            leaves = valueflow.deep_sources(prog, mod, b, flag.place.local) if flag.place is not None else []
            reads_policy = any(l[0] == 'place' and 'delaunay_repair_policy' in l[1][1] for l in leaves)
            why = []
            ok = True
            if not reads_policy:
                ok = False
                why.append('the decision does not read insertion_state.delaunay_repair_policy')
            if needs_check:
                sc = [l for l in leaves if l[0] == 'call' and (l[1].resolved or l[1].callee) == SHOULD_CHECK]
                if not sc:
                    ok = False
                    why.append('the decision does not consult DelaunayCheckPolicy::should_check')
                else:
                    ahead = False
                    for l in sc:
                        cb = prog.bodies[l[3]]
                        arg = l[1].args[1] if len(l[1].args) > 1 else None
                        sub = valueflow.deep_sources(prog, mod, cb, arg.place.local, depth=1) if arg is not None and arg.place is not None else []
                        sub = _ascend_params(prog, mod, leaves, sub)
                        reads_count = any(x[0] == 'place' and 'delaunay_repair_insertion_count' in x[1][1] for x in sub)
                        plus_one = any((x[0] == 'call' and (x[1].resolved or x[1].callee or '').rsplit('::', 1)[-1] in
                                        ('saturating_add', 'checked_add', 'wrapping_add', 'add') and
                                        any(a.int_value() == 1 for a in x[1].args)) or
                                       (x[0] == 'op' and x[1].startswith('Add') and x[2] == 1) for x in sub)
                        if reads_count and plus_one:
                            ahead = True
                    if not ahead:
                        ok = False
                        why.append('should_check is not evaluated at insertion_count + 1 (the check itself runs after the '
                                   'counter is incremented), so the insertion on which the check fires takes no snapshot')
            ctx.ob('SNAPCOND', fq, cfg, ok, '; '.join(why) or 'decision reads the repair policy%s' % (
                ' and should_check(count + 1)' if needs_check else ''), site='%s:%d' % (b.file, t.line))
    # the counter is incremented before the check in the insertion closures
    for q, cb in sorted(prog.bodies.items()):
        if cb.kind != 'closure' or cb.root not in (D_ + 'insert', D_ + 'insert_with_statistics'):
            continue
        checks = [bb for bb, t in cb.calls() if (t.resolved or t.callee) == MAYBE_CHECK]
        if not checks:
            continue
        al = mod.aliases(q)
        incs = []
        for blk in cb.blocks:
            if blk.cleanup:
                continue
            for s_ in blk.stmts:
                root, fields, derefd = al.norm(s_.place)
                if fields and fields[-1] == 'delaunay_repair_insertion_count' and derefd:
                    incs.append(blk.idx)
        ok = bool(incs) and all(any(cb.dominates(i, c) for i in incs) for c in checks)
        ctx.ob('SNAPCOND', cb.root + '|increment-before-check', cfg, ok,
               'insertion counter is %s incremented before maybe_check_after_insertion' % ('' if ok else 'NOT'),
               site='%s:%d' % (cb.file, cb.line))
