"""IDKEEP — a vertex that is re-created on the way into a triangulation (perturbed, wrapped,
re-inserted by a rebuild) keeps the caller's UUID and user data.

Every library call of `Vertex::new_with_uuid(point, uuid, data)` must take its `uuid` argument from
`Vertex::uuid(v)` (or the `uuid` field of v) and its `data` argument from the `data` field of the
*same* source vertex v.  Sites are keyed by the enclosing function (never a line)."""
import valueflow

VNEW = 'core::vertex::Vertex::new_with_uuid'
VUUID = 'core::vertex::Vertex::uuid'


def _vertex_roots(body, al, op, want):
    """Root locals of the vertex values from which operand `op` reads its `want` ('uuid' | 'data')."""
    roots = set()
    if op.place is None:
        return roots
    for leaf in valueflow.sources(body, al, op.place.local):
        if leaf[0] == 'call' and want == 'uuid' and (leaf[1].resolved or leaf[1].callee) == VUUID and leaf[1].args:
            tt = al.operand_target(leaf[1].args[0])
            if tt is not None:
                roots.add((tt[0], tuple(tt[1])))
        if leaf[0] == 'place' and leaf[1][1] and leaf[1][1][-1] == want:
            roots.add((leaf[1][0], tuple(leaf[1][1][:-1])))
    # direct field read of a local (not rooted at a parameter): `_x = _v.data`
    d = body.single_def(op.place.local) if op.place.is_local() else None
    if d is not None and d[1] != 'term' and d[2].rv.k == 'use' and d[2].rv.ops and d[2].rv.ops[0].place is not None:
        root, fields, _ = al.norm(d[2].rv.ops[0].place)
        if fields and fields[-1] == want:
            roots.add((root, tuple(fields[:-1])))
    return roots


def sites(prog):
    out = []
    for q, b in sorted(prog.bodies.items()):
        if not b.file.startswith('src/') or '::tests::' in q or '::test' in q.rsplit('::', 2)[-2:][0]:
            continue
        for bb, t in b.calls():
            if (t.resolved or t.callee) == VNEW and len(t.args) >= 3:
                out.append((q, bb, t))
    return out


def check(ctx, cfg, prog, mod, rule, owner_filter, floor):
    """owner_filter(root function qname) -> bool selects the sites this property is responsible for."""
    n = 0
    for q, bb, t in sites(prog):
        b = prog.bodies[q]
        owner = b.root or q
        if not owner_filter(owner):
            continue
        n += 1
        al = mod.aliases(q)
        u = _vertex_roots(b, al, t.args[1], 'uuid')
        d = _vertex_roots(b, al, t.args[2], 'data')
        ok = bool(u) and bool(d) and bool(u & d)
        why = ('uuid and data are read from the same source vertex' if ok else
               'uuid read from %s, data read from %s: the re-created vertex does not provably keep the UUID and user data of '
               'the vertex it replaces' % (sorted(u) or 'no vertex', sorted(d) or 'no vertex (constant / other value)'))
        idx = sum(1 for o in ctx.obligations if o['rule'] == rule and o['cfg'] == cfg and o['key'].startswith('%s|IDKEEP|%s|' % (rule, owner)))
        ctx.ob(rule, 'IDKEEP|%s|site%d' % (owner, idx), cfg, ok, why, site='%s:%d' % (b.file, t.line))
    ctx.floor('%s: Vertex::new_with_uuid re-creation sites' % rule, floor, n, cfg)


INSERT_TX = 'core::triangulation::Triangulation::insert_transactional'


def check_first_attempt(ctx, cfg, prog, mod, rule):
    """FIRSTTRY: the first attempt of an insertion uses the caller's coordinates as they are; the perturbed vertex is
    re-created only on a retry: the `Vertex::new_with_uuid` site of insert_transactional is unreachable from entry once
    the true edges of `attempt > 0` (a comparison of the loop counter named `attempt` with 0) are removed."""
    import flow
    b = ctx.anchor(cfg, INSERT_TX)
    if b is None:
        return
    # the retry counter: the integer bound from the `Some` payload of the `next()` call that drives a loop containing
    # the re-creation site (whatever its name); fall back to a local named `attempt`
    import loops as _loops
    vsites = [bb for bb, t in b.calls() if (t.resolved or t.callee) == VNEW]
    att = []
    for h, nodes in _loops.natural_loops(b).items():
        if not any(v in nodes for v in vsites):
            continue
        for nb in nodes:
            nt = b.blocks[nb].term
            if nt.k != 'call' or (nt.callee or nt.resolved or '').rsplit('::', 1)[-1] != 'next' or nt.dest is None or \
                    not nt.dest.is_local():
                continue
            for blk in b.blocks:
                if blk.idx not in nodes:
                    continue
                for s_ in blk.stmts:
                    if s_.kind == 'A' and s_.rv.k == 'use' and s_.rv.ops and s_.rv.ops[0].place is not None and \
                            s_.rv.ops[0].place.local == nt.dest.local and s_.rv.ops[0].place.proj and s_.place.is_local() and \
                            b.locals[s_.place.local] in ('usize', 'u32', 'u64', 'u8', 'u16', 'i32', 'i64'):
                        att.append(s_.place.local)
    att = sorted(set(att) | {l for l, nm in b.names.items() if nm == 'attempt'})
    site = '%s:%d' % (b.file, b.line)
    if not att:
        ctx.ob(rule, 'FIRSTTRY|' + INSERT_TX, cfg, False, 'no retry counter found: no integer loop variable drives a loop around the '
               're-creation site (fail closed)', site=site)
        return
    carried = set(att)
    changed = True
    while changed:
        changed = False
        for blk in b.blocks:
            for s_ in blk.stmts:
                if s_.kind == 'A' and s_.place.is_local() and s_.place.local not in carried and s_.rv.k == 'use' and s_.rv.ops and \
                        s_.rv.ops[0].place is not None and s_.rv.ops[0].place.is_local() and s_.rv.ops[0].place.local in carried:
                    carried.add(s_.place.local)
                    changed = True
    uses = flow._collect_uses(b)
    retry_edges = set()
    for blk in b.blocks:
        for s_ in blk.stmts:
            if s_.kind != 'A' or s_.rv.k != 'bin' or not s_.place.is_local():
                continue
            op = s_.rv.raw.get('op')
            ops = s_.rv.ops
            if op not in ('Gt', 'Ne', 'Eq', 'Ge') or len(ops) != 2:
                continue
            a_is = ops[0].place is not None and ops[0].place.is_local() and ops[0].place.local in carried
            if not a_is or ops[1].int_value() is None:
                continue
            k = ops[1].int_value()
            for (sbb, _, snode, how) in uses.get(s_.place.local, []):
                if how != 'switch':
                    continue
                listed = {v: tg for v, tg in snode.values}
                false_t = listed.get(0)
                true_t = snode.otherwise if 0 in listed else None
                if (op == 'Gt' and k == 0) or (op == 'Ne' and k == 0) or (op == 'Ge' and k == 1):
                    if true_t is not None:
                        retry_edges.add((sbb, true_t))
                elif op == 'Eq' and k == 0 and false_t is not None:
                    retry_edges.add((sbb, false_t))
    # `match attempt { 0 => .., _ => .. }`: a switch on the counter itself; every edge but the one for 0 is a retry edge
    for l in carried:
        for (sbb, _, snode, how) in uses.get(l, []):
            if how != 'switch':
                continue
            listed = {v: tg for v, tg in snode.values}
            if 0 in listed:
                for v, tg in snode.values:
                    if v != 0:
                        retry_edges.add((sbb, tg))
                if snode.otherwise is not None:
                    retry_edges.add((sbb, snode.otherwise))
    sites_ = [bb for bb, t in b.calls() if (t.resolved or t.callee) == VNEW]
    reach = flow.reach_edges_cp(b, [0], avoid_edges=retry_edges)
    bad = [x for x in sites_ if x in reach]
    ok = bool(sites_) and bool(retry_edges) and not bad
    ctx.ob(rule, 'FIRSTTRY|' + INSERT_TX, cfg, ok,
           'the perturbed vertex is re-created only behind `attempt > 0` (%d retry edge(s))' % len(retry_edges) if ok else
           'the perturbed vertex can be re-created on the first attempt (the re-creation site is reachable without passing '
           '`attempt > 0`): stored coordinates are displaced although no retry was needed', site=site)
