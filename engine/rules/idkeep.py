"""IDKEEP — a vertex that is re-created on the way into a triangulation (perturbed, wrapped,
re-inserted by a rebuild) keeps the caller's UUID and user data.

Every library call of `Vertex::new_with_uuid(point, uuid, data)` must take its `uuid` argument from
`Vertex::uuid(v)` (or the `uuid` field of v) and its `data` argument from the `data` field of the
*same* source vertex v.  Sites are keyed by the enclosing function (never a line)."""
import valueflow

VNEW = 'core::vertex::Vertex::new_with_uuid'
VUUID = 'core::vertex::Vertex::uuid'


def _vertex_roots(body, al, op, want):
    """Root locals of the vertex values from which operand `op` reads its `want` ('uuid' | 'data')."""
    roots = set()
    if op.place is None:
        return roots
    for leaf in valueflow.sources(body, al, op.place.local):
        if leaf[0] == 'call' and want == 'uuid' and (leaf[1].resolved or leaf[1].callee) == VUUID and leaf[1].args:
            tt = al.operand_target(leaf[1].args[0])
            if tt is not None:
                roots.add((tt[0], tuple(tt[1])))
        if leaf[0] == 'place' and leaf[1][1] and leaf[1][1][-1] == want:
            roots.add((leaf[1][0], tuple(leaf[1][1][:-1])))
    # direct field read of a local (not rooted at a parameter): `_x = _v.data`
    d = body.single_def(op.place.local) if op.place.is_local() else None
    if d is not None and d[1] != 'term' and d[2].rv.k == 'use' and d[2].rv.ops and d[2].rv.ops[0].place is not None:
        root, fields, _ = al.norm(d[2].rv.ops[0].place)
        if fields and fields[-1] == want:
            roots.add((root, tuple(fields[:-1])))
    return roots


def sites(prog):
    out = []
    for q, b in sorted(prog.bodies.items()):
        if not b.file.startswith('src/') or '::tests::' in q or '::test' in q.rsplit('::', 2)[-2:][0]:
            continue
        for bb, t in b.calls():
            if (t.resolved or t.callee) == VNEW and len(t.args) >= 3:
                out.append((q, bb, t))
    return out


def check(ctx, cfg, prog, mod, rule, owner_filter, floor):
    """owner_filter(root function qname) -> bool selects the sites this property is responsible for."""
    n = 0
    for q, bb, t in sites(prog):
        b = prog.bodies[q]
        owner = b.root or q
        if not owner_filter(owner):
            continue
        n += 1
        al = mod.aliases(q)
        u = _vertex_roots(b, al, t.args[1], 'uuid')
        d = _vertex_roots(b, al, t.args[2], 'data')
        ok = bool(u) and bool(d) and bool(u & d)
        why = ('uuid and data are read from the same source vertex' if ok else
               'uuid read from %s, data read from %s: the re-created vertex does not provably keep the UUID and user data of '
               'the vertex it replaces' % (sorted(u) or 'no vertex', sorted(d) or 'no vertex (constant / other value)'))
        idx = sum(1 for o in ctx.obligations if o['rule'] == rule and o['cfg'] == cfg and o['key'].startswith('%s|IDKEEP|%s|' % (rule, owner)))
        ctx.ob(rule, 'IDKEEP|%s|site%d' % (owner, idx), cfg, ok, why, site='%s:%d' % (b.file, t.line))
    ctx.floor('%s: Vertex::new_with_uuid re-creation sites' % rule, floor, n, cfg)
