"""Build (or reuse) a MIR fact base for /repo's current working tree.

A fact base is keyed by the SHA-256 of everything that can change the analysed program:
src/**, Cargo.toml, Cargo.lock, build.rs (if any), the cfg tuple and the driver binary.
It is rebuilt from /repo's working tree whenever that key changes; nothing is taken on trust
from an earlier tree."""
import fcntl
import glob
import hashlib
import os
import shutil
import subprocess
import sys
import time

VERIF = os.path.dirname(os.path.dirname(os.path.abspath(__file__)))
REPO = os.environ.get('VERIF_REPO', '/repo')
CACHE = os.path.join(VERIF, '.cache')
DRIVER_DIR = os.path.join(VERIF, 'engine', 'driver')
DRIVER = os.path.join(DRIVER_DIR, 'target', 'debug', 'dfacts')

CONFIGS = {
    # name: (cargo profile flags, feature flags)
    'dev': ([], []),
    'release': (['--release'], []),
    'dev-nodefault': ([], ['--no-default-features']),
    'release-nodefault': (['--release'], ['--no-default-features']),
}


def sh(cmd, **kw):
    return subprocess.run(cmd, stdout=subprocess.PIPE, stderr=subprocess.STDOUT, text=True, **kw)


def nightly_sysroot():
    r = sh(['rustc', '+nightly', '--print', 'sysroot'], cwd=DRIVER_DIR)
    return r.stdout.strip().splitlines()[-1]


def build_driver():
    env = dict(os.environ, CARGO_NET_OFFLINE='true')
    r = sh(['cargo', 'build', '--offline'], cwd=DRIVER_DIR, env=env)
    if r.returncode != 0 or not os.path.exists(DRIVER):
        sys.stderr.write(r.stdout)
        raise SystemExit('factbase: driver build failed')


def tree_hash(cfg):
    h = hashlib.sha256()
    files = sorted(glob.glob(os.path.join(REPO, 'src', '**', '*.rs'), recursive=True))
    for extra in ('Cargo.toml', 'Cargo.lock', 'build.rs'):
        p = os.path.join(REPO, extra)
        if os.path.exists(p):
            files.append(p)
    for p in files:
        h.update(os.path.relpath(p, REPO).encode())
        h.update(b'\0')
        with open(p, 'rb') as f:
            h.update(f.read())
        h.update(b'\0')
    h.update(cfg.encode())
    with open(DRIVER, 'rb') as f:
        h.update(f.read())
    return h.hexdigest()[:24]


KEEP_STALE = 6


def facts(cfg='dev', quiet=False):
    """Return path of the fact file for /repo's current tree under configuration `cfg`."""
    if cfg not in CONFIGS:
        raise SystemExit('factbase: unknown cfg ' + cfg)
    os.makedirs(CACHE, exist_ok=True)
    if not os.path.exists(DRIVER):
        build_driver()
    lock = open(os.path.join(CACHE, 'lock-' + cfg), 'w')
    fcntl.flock(lock, fcntl.LOCK_EX)
    try:
        key = tree_hash(cfg)
        out = os.path.join(CACHE, 'facts-%s-%s.jsonl' % (cfg, key))
        if os.path.exists(out) and os.path.getsize(out) > 0:
            return out
        # drop stale fact files of this cfg, keeping the few most recent ones: another process (a self-test
        # mutant run, a parallel check of a different tree) may still be about to read its own file
        olds = sorted(glob.glob(os.path.join(CACHE, 'facts-%s-*.jsonl' % cfg)), key=os.path.getmtime, reverse=True)
        for old in olds[KEEP_STALE:]:
            try:
                os.remove(old)
            except OSError:
                pass
        t0 = time.time()
        prof, feat = CONFIGS[cfg]
        target = os.path.join(CACHE, 'target-' + cfg)
        # cargo's freshness cache would silently skip the wrapper: drop the crate's fingerprints
        for fp in glob.glob(os.path.join(target, '*', '.fingerprint', 'delaunay-*')):
            shutil.rmtree(fp, ignore_errors=True)
        tmp = out + '.tmp'
        if os.path.exists(tmp):
            os.remove(tmp)
        env = dict(os.environ)
        env.update({
            'LD_LIBRARY_PATH': os.path.join(nightly_sysroot(), 'lib'),
            'RUSTFLAGS': '-Zmir-opt-level=0 -Awarnings',
            'RUSTC_WORKSPACE_WRAPPER': DRIVER,
            'DFACTS_OUT': tmp,
            'DFACTS_CRATE': 'delaunay',
            'CARGO_TARGET_DIR': target,
            'CARGO_NET_OFFLINE': 'true',
        })
        env.pop('RUSTC_WRAPPER', None)
        cmd = ['cargo', '+nightly', 'check', '--offline', '--lib'] + prof + feat
        r = sh(cmd, cwd=REPO, env=env)
        if r.returncode != 0:
            sys.stderr.write(r.stdout[-6000:])
            raise SystemExit('factbase: cargo check failed for cfg %s (the tree does not compile?)' % cfg)
        if not os.path.exists(tmp):
            sys.stderr.write(r.stdout[-3000:])
            raise SystemExit('factbase: driver wrote no facts for cfg %s' % cfg)
        with open(tmp, 'rb') as f:
            f.seek(max(0, os.path.getsize(tmp) - 200))
            tail = f.read()
        if b'"rec":"end"' not in tail:
            raise SystemExit('factbase: fact file truncated for cfg %s' % cfg)
        os.rename(tmp, out)
        if not quiet:
            sys.stderr.write('factbase: built %s in %.1fs\n' % (os.path.basename(out), time.time() - t0))
        return out
    finally:
        fcntl.flock(lock, fcntl.LOCK_UN)
        lock.close()


if __name__ == '__main__':
    for c in (sys.argv[1:] or ['dev']):
        print(facts(c))
