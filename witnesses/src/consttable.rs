//! Exhaustive truth tables of the policy predicates, checked by the const evaluator.
//! A changed entry makes this crate fail to build.
#![allow(clippy::assertions_on_constants)]

use delaunay::core::delaunay_triangulation::{DelaunayCheckPolicy, DelaunayRepairPolicy};
use delaunay::core::operations::{RepairDecision, TopologicalOperation};
use delaunay::core::triangulation::{TopologyGuarantee, ValidationPolicy};
use std::num::NonZeroUsize;

const P: TopologyGuarantee = TopologyGuarantee::Pseudomanifold;
const M: TopologyGuarantee = TopologyGuarantee::PLManifold;
const S: TopologyGuarantee = TopologyGuarantee::PLManifoldStrict;

// requires_ridge_links: F T T
const _: () = assert!(!P.requires_ridge_links() && M.requires_ridge_links() && S.requires_ridge_links());
// requires_vertex_links_during_insertion: F F T
const _: () = assert!(
    !P.requires_vertex_links_during_insertion()
        && !M.requires_vertex_links_during_insertion()
        && S.requires_vertex_links_during_insertion()
);
// requires_vertex_links_at_completion: F T T
const _: () = assert!(
    !P.requires_vertex_links_at_completion()
        && M.requires_vertex_links_at_completion()
        && S.requires_vertex_links_at_completion()
);

// is_compatible_with_policy: Pseudomanifold with everything; the PL guarantees with everything but Never
const _: () = assert!(
    P.is_compatible_with_policy(ValidationPolicy::Never)
        && P.is_compatible_with_policy(ValidationPolicy::OnSuspicion)
        && P.is_compatible_with_policy(ValidationPolicy::Always)
        && P.is_compatible_with_policy(ValidationPolicy::DebugOnly)
);
const _: () = assert!(
    !M.is_compatible_with_policy(ValidationPolicy::Never)
        && M.is_compatible_with_policy(ValidationPolicy::OnSuspicion)
        && M.is_compatible_with_policy(ValidationPolicy::Always)
        && M.is_compatible_with_policy(ValidationPolicy::DebugOnly)
);
const _: () = assert!(
    !S.is_compatible_with_policy(ValidationPolicy::Never)
        && S.is_compatible_with_policy(ValidationPolicy::OnSuspicion)
        && S.is_compatible_with_policy(ValidationPolicy::Always)
        && S.is_compatible_with_policy(ValidationPolicy::DebugOnly)
);

// TopologicalOperation::requires_pl_manifold: only CavityFlip
const _: () = assert!(
    !TopologicalOperation::InsertVertex.requires_pl_manifold()
        && !TopologicalOperation::DeleteVertex.requires_pl_manifold()
        && !TopologicalOperation::FacetFlip.requires_pl_manifold()
        && TopologicalOperation::CavityFlip.requires_pl_manifold()
);
// is_admissible_under: everything under the PL guarantees; under Pseudomanifold everything but CavityFlip
const _: () = assert!(
    TopologicalOperation::InsertVertex.is_admissible_under(P)
        && TopologicalOperation::DeleteVertex.is_admissible_under(P)
        && TopologicalOperation::FacetFlip.is_admissible_under(P)
        && !TopologicalOperation::CavityFlip.is_admissible_under(P)
);
const _: () = assert!(
    TopologicalOperation::InsertVertex.is_admissible_under(M)
        && TopologicalOperation::DeleteVertex.is_admissible_under(M)
        && TopologicalOperation::FacetFlip.is_admissible_under(M)
        && TopologicalOperation::CavityFlip.is_admissible_under(M)
        && TopologicalOperation::InsertVertex.is_admissible_under(S)
        && TopologicalOperation::DeleteVertex.is_admissible_under(S)
        && TopologicalOperation::FacetFlip.is_admissible_under(S)
        && TopologicalOperation::CavityFlip.is_admissible_under(S)
);
// required_topology
const _: () = assert!(
    matches!(TopologicalOperation::FacetFlip.required_topology(), TopologyGuarantee::Pseudomanifold)
        && matches!(TopologicalOperation::InsertVertex.required_topology(), TopologyGuarantee::Pseudomanifold)
        && matches!(TopologicalOperation::DeleteVertex.required_topology(), TopologyGuarantee::Pseudomanifold)
        && matches!(TopologicalOperation::CavityFlip.required_topology(), TopologyGuarantee::PLManifold)
);

// DelaunayRepairPolicy::should_repair / decide
const THREE: NonZeroUsize = match NonZeroUsize::new(3) {
    Some(n) => n,
    None => panic!(),
};
const _: () = assert!(
    !DelaunayRepairPolicy::Never.should_repair(0)
        && !DelaunayRepairPolicy::Never.should_repair(7)
        && DelaunayRepairPolicy::EveryInsertion.should_repair(0)
        && DelaunayRepairPolicy::EveryInsertion.should_repair(7)
        && DelaunayRepairPolicy::EveryN(THREE).should_repair(0)
        && !DelaunayRepairPolicy::EveryN(THREE).should_repair(1)
        && !DelaunayRepairPolicy::EveryN(THREE).should_repair(2)
        && DelaunayRepairPolicy::EveryN(THREE).should_repair(3)
        && DelaunayRepairPolicy::EveryN(THREE).should_repair(6)
);
const _: () = assert!(
    matches!(DelaunayRepairPolicy::Never.decide(1, M, TopologicalOperation::FacetFlip), RepairDecision::Skip { .. })
        && matches!(DelaunayRepairPolicy::EveryInsertion.decide(1, P, TopologicalOperation::FacetFlip), RepairDecision::Proceed)
        && matches!(DelaunayRepairPolicy::EveryInsertion.decide(1, M, TopologicalOperation::FacetFlip), RepairDecision::Proceed)
        && matches!(DelaunayRepairPolicy::EveryInsertion.decide(1, S, TopologicalOperation::FacetFlip), RepairDecision::Proceed)
        && matches!(DelaunayRepairPolicy::EveryInsertion.decide(1, P, TopologicalOperation::CavityFlip), RepairDecision::Skip { .. })
        && matches!(DelaunayRepairPolicy::EveryInsertion.decide(1, M, TopologicalOperation::CavityFlip), RepairDecision::Proceed)
);

// DelaunayCheckPolicy::should_check
const _: () = assert!(
    !DelaunayCheckPolicy::EndOnly.should_check(0)
        && !DelaunayCheckPolicy::EndOnly.should_check(5)
        && DelaunayCheckPolicy::EveryN(THREE).should_check(3)
        && !DelaunayCheckPolicy::EveryN(THREE).should_check(4)
);
