//! Type-level remainder of the static checks: what a *user* of `delaunay` cannot write.
//!
//! Every `compile_fail,Exxxx` block is paired with a compiling twin that differs only in the
//! offending line, because a witness whose path is merely wrong also "fails to compile".
//! Run with `cargo +nightly test --doc` (the stable toolchain ignores the error code).
//!
//! The `const` items of [`consttable`] are exhaustive truth tables of the policy predicates:
//! rustc's const evaluator enumerates the finite domain at compile time.

pub mod consttable;

/// The storage of a live triangulation is not reachable through `as_triangulation_mut()`.
///
/// ```compile_fail,E0616
/// use delaunay::prelude::triangulation::*;
/// use delaunay::vertex;
/// let vs = vec![vertex!([0.0, 0.0]), vertex!([1.0, 0.0]), vertex!([0.0, 1.0])];
/// let mut dt: DelaunayTriangulation<_, (), (), 2> = DelaunayTriangulation::new(&vs).unwrap();
/// let _ = &mut dt.as_triangulation_mut().tds; // private field
/// ```
///
/// Twin (public setter on the same receiver):
/// ```
/// use delaunay::prelude::triangulation::*;
/// use delaunay::core::triangulation::ValidationPolicy;
/// use delaunay::vertex;
/// let vs = vec![vertex!([0.0, 0.0]), vertex!([1.0, 0.0]), vertex!([0.0, 1.0])];
/// let mut dt: DelaunayTriangulation<_, (), (), 2> = DelaunayTriangulation::new(&vs).unwrap();
/// dt.as_triangulation_mut().set_validation_policy(ValidationPolicy::Always);
/// ```
pub struct NoStorageThroughTriangulationMut;

/// `tds_mut()` exists only under `cfg(test)` of the library itself.
///
/// ```compile_fail,E0599
/// use delaunay::prelude::triangulation::*;
/// use delaunay::vertex;
/// let vs = vec![vertex!([0.0, 0.0]), vertex!([1.0, 0.0]), vertex!([0.0, 1.0])];
/// let mut dt: DelaunayTriangulation<_, (), (), 2> = DelaunayTriangulation::new(&vs).unwrap();
/// let _ = dt.tds_mut();
/// ```
///
/// Twin:
/// ```
/// use delaunay::prelude::triangulation::*;
/// use delaunay::vertex;
/// let vs = vec![vertex!([0.0, 0.0]), vertex!([1.0, 0.0]), vertex!([0.0, 1.0])];
/// let dt: DelaunayTriangulation<_, (), (), 2> = DelaunayTriangulation::new(&vs).unwrap();
/// let _ = dt.tds();
/// ```
pub struct NoTdsMut;

/// `tds()` hands out a shared reference: the mutable element accessors cannot be called on it.
///
/// ```compile_fail,E0596
/// use delaunay::prelude::triangulation::*;
/// use delaunay::vertex;
/// let vs = vec![vertex!([0.0, 0.0]), vertex!([1.0, 0.0]), vertex!([0.0, 1.0])];
/// let dt: DelaunayTriangulation<_, (), (), 2> = DelaunayTriangulation::new(&vs).unwrap();
/// let k = dt.tds().cell_keys().next().unwrap();
/// let _ = dt.tds().get_cell_by_key_mut(k);
/// ```
///
/// Twin (an owned clone may be edited; it is a different object):
/// ```
/// use delaunay::prelude::triangulation::*;
/// use delaunay::vertex;
/// let vs = vec![vertex!([0.0, 0.0]), vertex!([1.0, 0.0]), vertex!([0.0, 1.0])];
/// let dt: DelaunayTriangulation<_, (), (), 2> = DelaunayTriangulation::new(&vs).unwrap();
/// let k = dt.tds().cell_keys().next().unwrap();
/// let mut owned = dt.tds().clone();
/// let _ = owned.get_cell_by_key_mut(k);
/// ```
pub struct SharedTdsIsReadOnly;

/// The generation counter can be read, not written.
///
/// ```compile_fail,E0616
/// use delaunay::core::triangulation_data_structure::Tds;
/// let mut tds: Tds<f64, (), (), 2> = Tds::empty();
/// tds.generation = Default::default();
/// ```
///
/// ```compile_fail,E0624
/// use delaunay::core::triangulation_data_structure::Tds;
/// let tds: Tds<f64, (), (), 2> = Tds::empty();
/// tds.bump_generation();
/// ```
///
/// Twin:
/// ```
/// use delaunay::core::triangulation_data_structure::Tds;
/// let tds: Tds<f64, (), (), 2> = Tds::empty();
/// assert_eq!(tds.generation(), 0);
/// ```
pub struct GenerationIsReadOnly;

/// Cell vertex slots cannot be edited from outside the crate.
///
/// ```compile_fail,E0616
/// use delaunay::prelude::triangulation::*;
/// use delaunay::vertex;
/// let vs = vec![vertex!([0.0, 0.0]), vertex!([1.0, 0.0]), vertex!([0.0, 1.0])];
/// let dt: DelaunayTriangulation<_, (), (), 2> = DelaunayTriangulation::new(&vs).unwrap();
/// let mut owned = dt.tds().clone();
/// let k = owned.cell_keys().next().unwrap();
/// let cell = owned.get_cell_by_key_mut(k).unwrap();
/// cell.vertices.clear();
/// ```
///
/// ```compile_fail,E0624
/// use delaunay::prelude::triangulation::*;
/// use delaunay::vertex;
/// let vs = vec![vertex!([0.0, 0.0]), vertex!([1.0, 0.0]), vertex!([0.0, 1.0])];
/// let dt: DelaunayTriangulation<_, (), (), 2> = DelaunayTriangulation::new(&vs).unwrap();
/// let mut owned = dt.tds().clone();
/// let k = owned.cell_keys().next().unwrap();
/// let cell = owned.get_cell_by_key_mut(k).unwrap();
/// cell.swap_vertex_slots(0, 1);
/// ```
///
/// Twin:
/// ```
/// use delaunay::prelude::triangulation::*;
/// use delaunay::vertex;
/// let vs = vec![vertex!([0.0, 0.0]), vertex!([1.0, 0.0]), vertex!([0.0, 1.0])];
/// let dt: DelaunayTriangulation<_, (), (), 2> = DelaunayTriangulation::new(&vs).unwrap();
/// let mut owned = dt.tds().clone();
/// let k = owned.cell_keys().next().unwrap();
/// let cell = owned.get_cell_by_key_mut(k).unwrap();
/// assert_eq!(cell.vertices().len(), 3);
/// ```
pub struct CellSlotsArePrivate;

/// A hull cannot be forged with a chosen creation generation.
///
/// ```compile_fail,E0451
/// use delaunay::geometry::algorithms::convex_hull::ConvexHull;
/// use delaunay::geometry::kernel::FastKernel;
/// let _h: ConvexHull<FastKernel<f64>, (), (), 2> = ConvexHull {
///     hull_facets: Vec::new(),
///     facet_to_cells_cache: Default::default(),
///     creation_generation: Default::default(),
///     cached_generation: Default::default(),
///     _phantom: Default::default(),
/// };
/// ```
///
/// Twin:
/// ```
/// use delaunay::geometry::algorithms::convex_hull::ConvexHull;
/// use delaunay::geometry::kernel::FastKernel;
/// let h: ConvexHull<FastKernel<f64>, (), (), 2> = ConvexHull::default();
/// assert!(h.is_empty());
/// ```
pub struct HullIsNotForgeable;

/// Flip contexts are not constructible by users (they only come out of the validated builders).
///
/// ```compile_fail,E0603
/// use delaunay::core::algorithms::flips::FlipContext;
/// ```
///
/// Twin:
/// ```
/// use delaunay::core::algorithms::flips::FlipInfo;
/// fn _takes(_: &FlipInfo<2>) {}
/// ```
pub struct FlipContextIsPrivate;
