#!/bin/bash
# Runs every benign refactoring against ALL checks (not only the mapped ones); any VIOLATION is a false alarm.
cd "$(dirname "$0")"
for p in benign/*.patch; do
  ./run_mutant.sh "$p" C01 C02 C03 C05 C06 C07 C08 C09 C11 C13 C14 C16 C19 2>&1 | grep -E "^==" 
done
