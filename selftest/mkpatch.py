#!/usr/bin/env python3
"""mkpatch.py <repo-relative-file> <out.patch> <<< JSON {"old": "...", "new": "...", "nth": 1}
Builds a unified diff (a/ b/ prefixes) replacing the nth occurrence of `old` by `new` in the
file as it is in /repo now."""
import difflib
import json
import sys

rel, out = sys.argv[1], sys.argv[2]
spec = json.load(sys.stdin)
src = open('/repo/' + rel).read()
old, new, nth = spec['old'], spec['new'], spec.get('nth', 1)
idx = -1
for _ in range(nth):
    idx = src.find(old, idx + 1)
    if idx < 0:
        sys.exit('old text not found (%s)' % rel)
dst = src[:idx] + new + src[idx + len(old):]
d = difflib.unified_diff(src.splitlines(True), dst.splitlines(True), 'a/' + rel, 'b/' + rel, n=3)
open(out, 'w').write(''.join(d))
print('wrote', out)
