use delaunay::core::util::delaunay_validation::find_delaunay_violations;
use delaunay::prelude::triangulation::*;
use delaunay::vertex;
use delaunay::prelude::{Kernel, FastKernel, RobustKernel};

fn solve(mut a: Vec<Vec<f64>>, mut b: Vec<f64>) -> Option<Vec<f64>> {
    let n = b.len();
    for c in 0..n {
        let mut p = c;
        for r in c + 1..n { if a[r][c].abs() > a[p][c].abs() { p = r; } }
        if a[p][c].abs() < 1e-300 { return None; }
        a.swap(p, c); b.swap(p, c);
        for r in c + 1..n {
            let f = a[r][c] / a[c][c];
            for k in c..n { a[r][k] -= f * a[c][k]; }
            b[r] -= f * b[c];
        }
    }
    let mut x = vec![0.0; n];
    for r in (0..n).rev() {
        let mut s = b[r];
        for k in r + 1..n { s -= a[r][k] * x[k]; }
        x[r] = s / a[r][r];
    }
    Some(x)
}

fn main() {
    let pts: Vec<[f64; 4]> = vec![
        [9.249311229214072, 6.6705208364874125, 5.313929561525583, 3.4500140137970448],
        [2.79410257935524, 2.9482698161154985, 4.874238017946482, 1.4975764974951744],
        [4.436778165400028, 8.526497855782509, 6.540596578270197, 0.7263067923486233],
        [9.482962368056178, 0.11398577131330967, 2.5042420998215675, 9.803747273981571],
        [9.172617048025131, 1.793354945257306, 0.5579815711826086, 2.7781641576439142],
        [6.578499237075448, 9.001166336238384, 9.25624837167561, 3.548844587057829],
        [9.271911010146141, 1.4844026044011116, 8.433301569893956, 1.643251832574606],
        [0.6163979787379503, 2.6347617339342833, 3.378212908282876, 8.28693937510252],
        [3.6643111798912287, 6.493791863322258, 9.837357178330421, 9.745288882404566],
        [5.073529584333301, 7.379123652353883, 5.340316258370876, 8.299926090985537],
        [2.482148529961705, 6.754908170551062, 1.3734281435608864, 6.2470826506614685],
        [8.62757190130651, 3.908044658601284, 1.9066568743437529, 1.2202109955251217],
    ];
    let _ = pts;
    use delaunay::core::delaunay_triangulation::DelaunayCheckPolicy;
    let mut wit = 0; let mut runs = 0;
    for seed in 1u64..=80 {
        let mut st = seed;
        let mut nxt = || { st = st.wrapping_mul(6_364_136_223_846_793_005).wrapping_add(1_442_695_040_888_963_407); ((st >> 11) % (1 << 30)) as f64 / f64::from(1 << 30) * 10.0 };
        let pts: Vec<[f64; 4]> = (0..12).map(|_| [nxt(), nxt(), nxt(), nxt()]).collect();
        let mut dt: DelaunayTriangulation<FastKernel<f64>, (), (), 4> = DelaunayTriangulation::empty();
        dt.set_delaunay_check_policy(DelaunayCheckPolicy::EveryN(std::num::NonZeroUsize::new(1).unwrap()));
        runs += 1;
        for (i, p) in pts.iter().enumerate() {
            let r = dt.insert(vertex!(*p));
            if r.is_ok() && dt.number_of_cells() > 0 {
                let rep = report(&dt);
                if rep.2 > 0 { wit += 1; println!("C02 witness seed={seed}: insert #{i} {:?} reported Ok with the per-insertion check on; cells={} bad_cells={} lib={} validate_ok={}", p, rep.0, rep.2, rep.3, rep.4); break; }
            }
        }
    }
    println!("incremental runs: {runs}; with a certified-but-non-Delaunay insertion: {wit}");
}

fn report<K: Kernel<4, Scalar = f64>>(dt: &DelaunayTriangulation<K, (), (), 4>) -> (usize, usize, usize, usize, bool) {
    let tds = dt.tds();
    let all: Vec<[f64; 4]> = tds.vertices().map(|(_, v)| *v.point().coords()).collect();
    let mut bad = 0;
    for (_, cell) in tds.cells() {
        let p: Vec<[f64; 4]> = cell.vertices().iter().map(|k| *tds.get_vertex_by_key(*k).unwrap().point().coords()).collect();
        // circumcentre: 2 (p_i - p_0) . c = |p_i|^2 - |p_0|^2
        let mut a = vec![]; let mut b = vec![];
        for i in 1..5 {
            a.push((0..4).map(|k| 2.0 * (p[i][k] - p[0][k])).collect::<Vec<_>>());
            b.push((0..4).map(|k| p[i][k] * p[i][k] - p[0][k] * p[0][k]).sum::<f64>());
        }
        let Some(c) = solve(a, b) else { continue };
        let r2: f64 = (0..4).map(|k| (p[0][k] - c[k]).powi(2)).sum();
        let mut inside = false;
        for q in &all {
            if p.iter().any(|x| x == q) { continue; }
            let d2: f64 = (0..4).map(|k| (q[k] - c[k]).powi(2)).sum();
            if d2 < r2 * (1.0 - 1e-6) { inside = true; }
        }
        if inside { bad += 1; }
    }
    let lib = find_delaunay_violations(tds, None).map(|v| v.len()).unwrap_or(usize::MAX);
    (tds.number_of_cells(), tds.number_of_vertices(), bad, lib, dt.validate().is_ok())
}
