use delaunay::geometry::util::{generate_random_points, generate_random_points_seeded, generate_poisson_points, generate_random_points_in_ball, generate_random_points_periodic};
fn main() {
    let r = std::panic::catch_unwind(|| generate_random_points::<f64, 2>(usize::MAX, (0.0, 1.0)).map(|v| v.len()).map_err(|e| e.to_string()));
    println!("generate_random_points(usize::MAX): {:?}", r.map_err(|_| "PANIC"));
    let r = std::panic::catch_unwind(|| generate_random_points_seeded::<f64, 2>(usize::MAX / 8, (0.0, 1.0), 1).map(|v| v.len()).map_err(|e| e.to_string()));
    println!("generate_random_points_seeded(usize::MAX/8): {:?}", r.map_err(|_| "PANIC"));
    let r = std::panic::catch_unwind(|| generate_poisson_points::<f64, 2>(usize::MAX, (0.0, 1.0), 0.0, 1).map(|v| v.len()).map_err(|e| e.to_string()));
    println!("generate_poisson_points(usize::MAX, min_distance 0): {:?}", r.map_err(|_| "PANIC"));
    let r = std::panic::catch_unwind(|| generate_random_points_in_ball::<f64, 2>(usize::MAX, 1.0).map(|v| v.len()).map_err(|e| e.to_string()));
    println!("generate_random_points_in_ball(usize::MAX): {:?}", r.map_err(|_| "PANIC"));
    let r = std::panic::catch_unwind(|| generate_random_points_periodic::<f64, 2>(usize::MAX, [1.0, 1.0], 1).map(|v| v.len()).map_err(|e| e.to_string()));
    println!("generate_random_points_periodic(usize::MAX): {:?}", r.map_err(|_| "PANIC"));
}
