use delaunay::prelude::triangulation::*;
use delaunay::prelude::FastKernel;
use delaunay::vertex;
fn main() {
    let vs = vec![vertex!([0.0, 0.0]), vertex!([4.0, 0.1]), vertex!([0.2, 4.0]), vertex!([4.1, 4.2]), vertex!([2.0, 1.7])];
    let dt: DelaunayTriangulation<FastKernel<f64>, (), (), 2> = DelaunayTriangulation::new(&vs).unwrap();
    let json = serde_json::to_string(&dt).unwrap();
    let a: Result<DelaunayTriangulation<FastKernel<f64>, (), (), 2>, _> = serde_json::from_str(&json);
    let b: Result<DelaunayTriangulation<FastKernel<f64>, (), (), 2>, _> = serde_json::from_reader(json.as_bytes());
    let v: serde_json::Value = serde_json::from_str(&json).unwrap();
    let c: Result<DelaunayTriangulation<FastKernel<f64>, (), (), 2>, _> = serde_json::from_value(v);
    println!("from_str: {:?}", a.as_ref().map(|d| d.number_of_cells()).map_err(|e| e.to_string()));
    println!("from_reader: {:?}", b.as_ref().map(|d| d.number_of_cells()).map_err(|e| e.to_string()));
    println!("from_value: {:?}", c.as_ref().map(|d| d.number_of_cells()).map_err(|e| e.to_string()));
    let t: Result<Tds<f64, (), (), 2>, _> = serde_json::from_reader(serde_json::to_string(dt.tds()).unwrap().as_bytes());
    println!("Tds from_reader: {:?}", t.as_ref().map(|d| d.number_of_cells()).map_err(|e| e.to_string()));
}
