use delaunay::core::delaunay_triangulation::{ConstructionOptions, DedupPolicy, InitialSimplexStrategy, InsertionOrderStrategy, RetryPolicy};
use delaunay::core::util::delaunay_validation::find_delaunay_violations;
use delaunay::prelude::triangulation::*;
use delaunay::prelude::{FastKernel, RobustKernel, Kernel};
use delaunay::vertex;

fn solve(mut a: Vec<Vec<f64>>, mut b: Vec<f64>) -> Option<Vec<f64>> {
    let n = b.len();
    for c in 0..n {
        let mut p = c;
        for r in c + 1..n { if a[r][c].abs() > a[p][c].abs() { p = r; } }
        if a[p][c].abs() < 1e-300 { return None; }
        a.swap(p, c); b.swap(p, c);
        for r in c + 1..n { let f = a[r][c] / a[c][c]; for k in c..n { a[r][k] -= f * a[c][k]; } b[r] -= f * b[c]; }
    }
    let mut x = vec![0.0; n];
    for r in (0..n).rev() { let mut s = b[r]; for k in r + 1..n { s -= a[r][k] * x[k]; } x[r] = s / a[r][r]; }
    Some(x)
}

fn report<K: Kernel<3, Scalar = f64>>(dt: &DelaunayTriangulation<K, usize, (), 3>) {
    let tds = dt.tds();
    let all: Vec<[f64; 3]> = tds.vertices().map(|(_, v)| *v.point().coords()).collect();
    let mut bad = 0;
    for (_, cell) in tds.cells() {
        let p: Vec<[f64; 3]> = cell.vertices().iter().map(|k| *tds.get_vertex_by_key(*k).unwrap().point().coords()).collect();
        let mut a = vec![]; let mut b = vec![];
        for i in 1..4 {
            a.push((0..3).map(|k| 2.0 * (p[i][k] - p[0][k])).collect::<Vec<_>>());
            b.push((0..3).map(|k| p[i][k] * p[i][k] - p[0][k] * p[0][k]).sum::<f64>());
        }
        let Some(c) = solve(a, b) else { continue };
        let r2: f64 = (0..3).map(|k| (p[0][k] - c[k]).powi(2)).sum();
        for q in &all {
            if p.iter().any(|x| x == q) { continue; }
            let d2: f64 = (0..3).map(|k| (q[k] - c[k]).powi(2)).sum();
            if d2 < r2 * (1.0 - 1e-3) { bad += 1; println!("   cell {:?} r2={r2:.4} contains {:?} d2={d2:.4}", p, q); break; }
        }
    }
    println!("  vertices={} cells={} bad_cells(margin>1e-3)={} library_violations={:?} validate={:?}", tds.number_of_vertices(), tds.number_of_cells(), bad,
        find_delaunay_violations(tds, None).map(|v| v.len()).ok(), dt.validate().is_ok());
}

fn main() {
    let raw: [[i32; 3]; 31] = [[1,2,1],[1,1,1],[1,1,0],[2,2,0],[0,1,1],[0,2,1],[1,1,1],[1,0,2],[2,2,2],[1,1,1],[0,0,2],
        [1,0,2],[0,2,2],[1,0,0],[0,2,1],[2,2,0],[2,0,1],[1,1,1],[0,1,1],[1,0,0],[1,1,0],[0,1,2],
        [0,0,1],[0,2,0],[2,2,2],[0,2,2],[0,2,2],[2,2,2],[0,0,2],[2,2,2],[0,0,0]];
    let vs: Vec<_> = raw.iter().enumerate().map(|(i, p)| vertex!([f64::from(p[0]), f64::from(p[1]), f64::from(p[2])], i)).collect();
    let options = ConstructionOptions::default()
        .with_insertion_order(InsertionOrderStrategy::Input)
        .with_dedup_policy(DedupPolicy::Off)
        .with_initial_simplex_strategy(InitialSimplexStrategy::First)
        .with_retry_policy(RetryPolicy::Disabled);
    match DelaunayTriangulation::<FastKernel<f64>, usize, (), 3>::with_topology_guarantee_and_options(&FastKernel::new(), &vs, TopologyGuarantee::PLManifold, options) {
        Ok(dt) => { println!("fast: Ok"); report(&dt); }
        Err(e) => println!("fast: Err {e}"),
    }
    match DelaunayTriangulation::<RobustKernel<f64>, usize, (), 3>::with_topology_guarantee_and_options(&RobustKernel::new(), &vs, TopologyGuarantee::PLManifold, options) {
        Ok(dt) => { println!("robust: Ok"); report(&dt); }
        Err(e) => println!("robust: Err {e}"),
    }
    // default options on the de-duplicated list
    let mut uniq: Vec<[i32; 3]> = vec![]; for p in raw { if !uniq.contains(&p) { uniq.push(p); } }
    let vs2: Vec<_> = uniq.iter().enumerate().map(|(i, p)| vertex!([f64::from(p[0]), f64::from(p[1]), f64::from(p[2])], i)).collect();
    match DelaunayTriangulation::<FastKernel<f64>, usize, (), 3>::with_kernel(&FastKernel::new(), &vs2) {
        Ok(dt) => { println!("default options, {} distinct points: Ok", vs2.len()); report(&dt); }
        Err(e) => println!("default: Err {e}"),
    }
}
