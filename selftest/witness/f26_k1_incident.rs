use delaunay::prelude::triangulation::*;
use delaunay::triangulation::flips::BistellarFlips;
use delaunay::vertex;

fn main() {
    let pts = [[0.0, 0.0], [10.0, 1.0], [2.0, 9.0], [11.0, 10.0], [5.0, 4.0], [6.0, 7.0], [3.0, 2.0], [8.0, 5.0]];
    let vs: Vec<_> = pts.iter().map(|p| vertex!(*p)).collect();
    // observation 3: a vertex inserted by flip_k1_insert keeps incident_cell == None; later unrelated inserts fail
    let mut dt: DelaunayTriangulation<_, (), (), 2> = DelaunayTriangulation::new(&vs).unwrap();
    let (ck, cell) = dt.cells().next().map(|(k, c)| (k, c.clone())).unwrap();
    let mut c = [0.0; 2];
    for vk in cell.vertices() { let p = dt.tds().get_vertex_by_key(*vk).unwrap().point().coords(); c[0] += p[0] / 3.0; c[1] += p[1] / 3.0; }
    let info = dt.flip_k1_insert(ck, vertex!(c)).unwrap();
    let newv = dt.tds().vertices().find(|(_, v)| v.point().coords() == &c).map(|(k, v)| (k, v.incident_cell)).unwrap();
    println!("obs3: after flip_k1_insert: new vertex incident_cell = {:?}; tds.is_valid = {:?}; validate = {:?}", newv.1, dt.tds().is_valid().is_ok(), dt.as_triangulation().validate().is_ok());
    let mut clone = dt.clone();
    println!("obs3: insert [9.5, 8.0] -> {:?}", clone.insert(vertex!([9.5, 8.0])).map_err(|e| e.to_string()));
    println!("obs3: insert [20.0, 3.0] -> {:?}", clone.insert(vertex!([20.0, 3.0])).map_err(|e| e.to_string()));
    // observation 2: a caller's copy that carries a stale incident_cell
    let mut copy = *dt.tds().get_vertex_by_key(newv.0).unwrap();
    let back = dt.flip_k1_remove(newv.0).unwrap();
    copy.incident_cell = Some(info.new_cells[0]); // a cell that no longer exists
    let r = dt.flip_k1_insert(back.new_cells[0], copy);
    println!("obs2: re-insert of the copy -> {:?}; tds.is_valid = {:?}", r.as_ref().map(|i| i.new_cells.len()).map_err(|e| e.to_string()), dt.tds().is_valid().map_err(|e| e.to_string()));
}
