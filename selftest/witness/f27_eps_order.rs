use delaunay::core::delaunay_triangulation::{ConstructionOptions, DedupPolicy, InitialSimplexStrategy, InsertionOrderStrategy, RetryPolicy};
use delaunay::prelude::triangulation::*;
use delaunay::prelude::FastKernel;
use delaunay::core::vertex::Vertex;
use delaunay::geometry::point::Point;
use delaunay::geometry::traits::coordinate::Coordinate;

fn v(id: u16, c: [f64; 2], data: i32) -> Vertex<f64, i32, 2> {
    let mut bytes = [0u8; 16]; bytes[..2].copy_from_slice(&id.to_be_bytes());
    Vertex::new_with_uuid(Point::new(c), uuid::Builder::from_random_bytes(bytes).into_uuid(), Some(data))
}
fn main() {
    let base = vec![
        v(1, [-4.734795937038991, 4.1528315310096815], 1), v(2, [1.5107757087001321, -4.09896933927942], 2),
        v(3, [3.474230132811801, -4.174899664030121], 3), v(4, [1.9285922957311676, 2.609213695818137], 4),
        v(0x0900, [1.25, 1.5], 100), v(0x9000, [1.25, 1.5001], 101),
        v(5, [1.5716017657692056, 0.7475246138683547], 5), v(6, [-0.06756695859940542, -0.7177736971477398], 6),
        v(7, [3.004167083052586, 0.8636667502698145], 7)];
    let mut swapped = base.clone(); swapped.swap(4, 5);
    for order in [InsertionOrderStrategy::Lexicographic, InsertionOrderStrategy::Morton, InsertionOrderStrategy::Hilbert] {
        let options = ConstructionOptions::default().with_insertion_order(order).with_dedup_policy(DedupPolicy::Epsilon { tolerance: 1e-2 })
            .with_initial_simplex_strategy(InitialSimplexStrategy::First).with_retry_policy(RetryPolicy::Disabled);
        let mut res = vec![];
        for list in [&base, &swapped] {
            let dt = DelaunayTriangulation::<FastKernel<f64>, i32, (), 2>::with_topology_guarantee_and_options(&FastKernel::new(), list, TopologyGuarantee::PLManifold, options).unwrap();
            let mut d: Vec<i32> = dt.tds().vertices().map(|(_, v)| v.data.unwrap()).collect(); d.sort_unstable();
            res.push(d);
        }
        println!("{order:?}: listed A,B -> data {:?}; listed B,A -> data {:?}; same = {}", res[0], res[1], res[0] == res[1]);
    }
}
