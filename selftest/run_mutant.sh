#!/bin/bash
# usage: run_mutant.sh <patch-file> <Cxx> [more Cxx...]
# Applies a patch to a scratch copy of /repo (outside /repo and /verif), runs the named checks
# against the copy (VERIF_REPO), prints their verdicts and removes the copy.
set -u
PATCH=$(readlink -f "$1"); shift
HERE=$(cd "$(dirname "$(readlink -f "$0")")/.." && pwd)
S=$(mktemp -d /var/tmp/dverif-mut.XXXXXX)
trap 'rm -rf "$S"' EXIT
rsync -a --exclude target --exclude .git /repo/ "$S/"
( cd "$S" && patch -p1 --quiet < "$PATCH" ) || { echo "PATCH-FAILED $PATCH"; exit 3; }
rc=0
for P in "$@"; do
  VERIF_REPO="$S" VERIF_EVIDENCE_DIR="$S/.evidence" "$HERE/check" "$P" > "$S/out.txt" 2>&1
  c=$?
  if grep -q '^VIOLATION' "$S/out.txt"; then v=VIOLATION; else v=silent; fi
  echo "== $(basename $PATCH) $P exit=$c $v"
  grep -E "^  violation|anchor|ANCHOR|factbase" "$S/out.txt" | sed "s#$S#<scratch>#g" | head -${MUT_LINES:-6}
done
