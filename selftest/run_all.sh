#!/bin/bash
# Runs every self-test mutant against its property; prints one line per (patch, property).
cd "$(dirname "$0")"
python3 - <<'PY'
import json, os, glob, subprocess
here = os.getcwd()
jobs = []
for d in sorted(glob.glob('mutants/C*')):
    prop = os.path.basename(d)
    for p in sorted(glob.glob(d + '/*.patch')):
        jobs.append((p, prop))
for p, props in json.load(open('map.json')).items():
    for prop in props:
        jobs.append((p, prop))
miss = 0
for p, prop in jobs:
    r = subprocess.run(['./run_mutant.sh', p, prop], stdout=subprocess.PIPE, stderr=subprocess.STDOUT, text=True)
    line = [l for l in r.stdout.splitlines() if l.startswith('==')]
    print(line[0] if line else 'ERROR ' + p)
    if line and 'VIOLATION' not in line[0]:
        miss += 1
print('missed:', miss, 'of', len(jobs))
PY
